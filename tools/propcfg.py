"""Per-property configuration of ./check: which correspondence domains run, what counts as non-trivial, trusted base."""

NOT_APPLICABLE = {}

PROPS = {
    "C19": {
        "level_text": ("Machine-checked Lean 4 theorems (all lists, all operation sequences) that the model of the identifier-set operations has "
                       "set semantics and that the actuation-table model keeps one record per object, returns the latest record, is total and "
                       "partitions by outcome. The model is tied to the code by running the real ObjMetadataSet/Manager on the same inputs "
                       "(exhaustive over short lists, random longer) and comparing every output; a unit test cannot quantify over all lists/sequences."),
        "level_note": ("Trusted: Lean kernel (+propext, Quot.sound, Classical.choice), the hand-written model, the Go harness and driver. "
                       "The proof is about the model; the code is covered as far as the correspondence run explores (reported in evidence)."),
        "technique": "Lean 4 proof (induction over lists / op sequences) + differential correspondence against the real Go code",
        "domains": ["set", "mgr"],
        "rule": ("set: every pair of id lists (with repeats) of length <= 3 (quick) / <= 4 (thorough) over a 3-id universe, crossed with "
                 "probe ids, plus random lists of length <= 8 over 4 ids; mgr: random sequences of 1..14 record/set/query operations on the "
                 "real inventory.Manager over 4 ids. A case is non-trivial if the two lists together have >= 2 elements (set) or the "
                 "sequence has >= 2 operations (mgr); distinct = distinct canonical input JSON."),
        "exhaustive_quick": False,
        "explanation": ("Theorems: set operations have mathematical set semantics for all lists; one record per id after any op sequence; "
                        "lookups return the latest record; queries total; outcome queries partition. Tie: the real ObjMetadataSet methods and "
                        "the real Manager are run on the same inputs and every output is compared with the model's; the property predicate "
                        "(set semantics / partition / no panic) is evaluated on the implementation's outputs."),
        "assumptions": ["Go map iteration order only affects Unique()/AppliedResourceUIDs(), which are compared as sorted lists"],
        "trusted_base": ["model: lean/CliUtils/Model/{IdSet,Manager,IdStr}.lean (hand-written; FNV-1a and sort.Strings modelled, fmt.Sprintf trusted)"],
    },
}
