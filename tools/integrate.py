#!/usr/bin/env python3
"""integrate.py <builder-copy-dir> <Cxx[,Cyy]> : copies a builder's new files into /verif and merges Driver/CliUtils/propcfg/MAP lines."""
import os, re, shutil, sys, filecmp
B = sys.argv[1].rstrip('/')
pids = sys.argv[2].split(',')
V = '/verif'
skip_dirs = {'.lake', 'bin', '.git', 'replays', 'evidence', '__pycache__', 'design-notes', 'seeded'}
merge_files = {'lean/Driver.lean', 'lean/CliUtils.lean', 'tools/propcfg.py', 'harness/overlay/MAP', 'harness/go.mod', 'harness/go.sum',
               'known-findings.txt', 'MANIFEST.json', 'check', '.gitignore', 'harness/overlay/overlay.json', 'harness/go.alt.mod', 'harness/go.alt.sum',
               'tools/BUILDER_GUIDE.md', 'tools/mkmanifest.py', 'tools/setup.sh', 'DESIGN.md', 'properties.jsonl', 'lean/lakefile.toml', 'lean/Audit.lean',
               'lean/lake-manifest.json', 'harness/cmd/corr/main.go', 'harness/internal/proto/proto.go'}
copied = []
for dp, dns, fns in os.walk(B):
    dns[:] = [d for d in dns if d not in skip_dirs]
    for fn in fns:
        src = os.path.join(dp, fn)
        rel = os.path.relpath(src, B)
        if rel in merge_files or rel.startswith('.lock'):
            continue
        dst = os.path.join(V, rel)
        if os.path.exists(dst):
            if filecmp.cmp(src, dst, shallow=False):
                continue
            # existing file differs: only take it if it belongs to this builder (name mentions its properties/domains) — report otherwise
            print('DIFFERS (not copied):', rel)
            continue
        os.makedirs(os.path.dirname(dst), exist_ok=True)
        shutil.copy2(src, dst)
        copied.append(rel)
print('copied:', *copied, sep='\n  ')
# Driver.lean
bd = open(B + '/lean/Driver.lean').read(); vd = open(V + '/lean/Driver.lean').read()
for imp in re.findall(r'^import \S+$', bd, re.M):
    if imp not in vd:
        last = [m for m in re.finditer(r'^import \S+$', vd, re.M)][-1]
        vd = vd[:last.end()] + '\n' + imp + vd[last.end():]
bh = re.search(r'def handlers[^\[]*\[(.*?)\n\]', bd, re.S).group(1)
vh = re.search(r'def handlers[^\[]*\[(.*?)\n\]', vd, re.S)
have = vh.group(1)
add = [l.strip().rstrip(',') for l in bh.strip().split('\n') if l.strip() and l.strip().rstrip(',') not in have]
if add:
    new = have.rstrip() + ',\n  ' + ',\n  '.join(add)
    vd = vd[:vh.start(1)] + new + vd[vh.end(1):]
open(V + '/lean/Driver.lean', 'w').write(vd)
# CliUtils.lean
bc = open(B + '/lean/CliUtils.lean').read(); vc = open(V + '/lean/CliUtils.lean').read()
for imp in re.findall(r'^import \S+$', bc, re.M):
    if imp not in vc:
        vc = vc.rstrip('\n') + '\n' + imp + '\n'
open(V + '/lean/CliUtils.lean', 'w').write(vc)
# MAP
bm = B + '/harness/overlay/MAP'
if os.path.exists(bm):
    vm = open(V + '/harness/overlay/MAP').read()
    for l in open(bm):
        if l.strip() and not l.startswith('#') and l.strip() not in vm:
            vm = vm.rstrip('\n') + '\n' + l.strip() + '\n'
    open(V + '/harness/overlay/MAP', 'w').write(vm)
# propcfg entries
bp = open(B + '/tools/propcfg.py').read(); vp = open(V + '/tools/propcfg.py').read().rstrip()
for pid in pids:
    m = re.search(r'^    "%s": \{.*?^    \},\n' % pid, bp, re.S | re.M)
    if not m:
        print('no propcfg entry for', pid); continue
    if ('"%s": {' % pid) in vp:
        print('propcfg already has', pid); continue
    vp = vp[:-1] + m.group(0) + '}'
open(V + '/tools/propcfg.py', 'w').write(vp + '\n')
# NOT_APPLICABLE / other top-level additions are merged by hand
