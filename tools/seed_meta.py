#!/usr/bin/env python3
"""seed_meta.py <seed-name> <property> <needs-text>: runs ./check <property> quick against the seeded change (scratch worktree) and
writes seeded/<seed-name>/meta.json (which property it breaks, what it needs to manifest, what was run, whether/how the check caught it)."""
import json, os, subprocess, sys, re
name, pid, needs = sys.argv[1], sys.argv[2], sys.argv[3]
d = f"/verif/seeded/{name}"
conf = json.load(open(d + "/confirm.json"))
p = subprocess.run(["/verif/tools/run_seeded.sh", name, pid, "quick"], capture_output=True, text=True)
out = p.stdout
viol = [l for l in out.splitlines() if l.startswith("VIOLATION")]
caught = bool(viol)
how = "not caught"
if caught:
    how = "no-failing-input-found (tie/correspondence broken)" if "no-failing-input-found" in viol[0] else "concrete failing input (spec predicate false on the implementation)"
summary = [l for l in out.splitlines() if l.startswith("[" + pid)]
meta = {"seed": name, "property": pid, "needs_to_manifest": needs, "confirmed": conf,
        "check_run": f"tools/run_seeded.sh {name} {pid} quick", "caught": caught, "how": how,
        "check_summary": summary[-1] if summary else out[-500:]}
json.dump(meta, open(d + "/meta.json", "w"), indent=1)
print(json.dumps({k: meta[k] for k in ("seed", "caught", "how")}))
