//go:build verif

// Injected into sigs.k8s.io/cli-utils/pkg/apply/mutator with `go build -overlay` (see overlay/MAP); /repo is not edited.
// Gives the correspondence harness access to the unexported helpers property C18 anchors in.
package mutator

import "k8s.io/apimachinery/pkg/apis/meta/v1/unstructured"

// VerifReadFieldValue calls readFieldValue (exactly-one-match requirement on read).
func VerifReadFieldValue(obj *unstructured.Unstructured, path string) (interface{}, bool, error) {
	return readFieldValue(obj, path)
}

// VerifWriteFieldValue calls writeFieldValue (exactly-one-match requirement on write).
func VerifWriteFieldValue(obj *unstructured.Unstructured, path string, value interface{}) error {
	return writeFieldValue(obj, path, value)
}

// VerifValueToString calls valueToString.
func VerifValueToString(value interface{}) (string, error) {
	return valueToString(value)
}
