//go:build verif

// Injected into sigs.k8s.io/cli-utils/pkg/apply/taskrunner with `go build -overlay` (no file is added to /repo).
package taskrunner

import (
	"sigs.k8s.io/cli-utils/pkg/apply/event"
	"sigs.k8s.io/cli-utils/pkg/object"
)

// VerifSendTimeoutEvents runs what the deadline goroutine of WaitTask.Start runs when the timeout fires.
func (w *WaitTask) VerifSendTimeoutEvents(tc *TaskContext) { w.sendTimeoutEvents(tc) }

// VerifPending returns a copy of the pending set.
func (w *WaitTask) VerifPending() object.ObjMetadataSet {
	w.mu.RLock()
	defer w.mu.RUnlock()
	return append(object.ObjMetadataSet{}, w.pending...)
}

// VerifWithEventChannel returns a TaskContext that shares everything with tc (inventory manager, cache, task channel,
// abandoned / invalid sets, graph) but sends its events to ch.
func VerifWithEventChannel(tc *TaskContext, ch chan event.Event) *TaskContext {
	c := *tc
	c.eventChannel = ch
	return &c
}
