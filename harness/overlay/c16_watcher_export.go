//go:build verif

// Injected into sigs.k8s.io/cli-utils/pkg/kstatus/watcher with `go build -overlay` (the repository is not edited).
// Thin exported wrappers around unexported identifiers, used only by the C16 correspondence harness.
package watcher

import (
	"context"

	"sigs.k8s.io/cli-utils/pkg/kstatus/polling/event"
	"sigs.k8s.io/cli-utils/pkg/object"
)

// VerifFunnel wraps the real eventFunnel.
type VerifFunnel struct{ f *eventFunnel }

func VerifNewFunnel(ctx context.Context) *VerifFunnel { return &VerifFunnel{f: newEventFunnel(ctx)} }

func (v *VerifFunnel) Add(ch <-chan event.Event) error { return v.f.AddInputChannel(ch) }
func (v *VerifFunnel) Out() <-chan event.Event         { return v.f.OutputChannel() }
func (v *VerifFunnel) Done() <-chan struct{}           { return v.f.Done() }

// VerifStarted reports informerRefs[gkn].started for every target of a started reporter.
func VerifStarted(r *ObjectStatusReporter) map[GroupKindNamespace]bool {
	out := map[GroupKindNamespace]bool{}
	for gkn, ref := range r.informerRefs {
		ref.lock.Lock()
		out[gkn] = ref.started
		ref.lock.Unlock()
	}
	return out
}

// VerifTargets runs the target selection of DefaultStatusWatcher.Watch.
func VerifTargets(strategy RESTScopeStrategy, ids object.ObjMetadataSet) (string, []GroupKindNamespace) {
	if strategy == RESTScopeAutomatic {
		strategy = autoSelectRESTScopeStrategy(ids)
	}
	switch strategy {
	case RESTScopeRoot:
		return "root", rootScopeGKNs(ids)
	case RESTScopeNamespace:
		return "ns", namespaceScopeGKNs(ids)
	}
	return "invalid", nil
}
