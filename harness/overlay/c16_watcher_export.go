//go:build verif

// Injected into sigs.k8s.io/cli-utils/pkg/kstatus/watcher with `go build -overlay` (the repository is not edited).
// Thin exported wrappers around unexported identifiers, used only by the C16 correspondence harness.
package watcher

import (
	"context"

	"sigs.k8s.io/cli-utils/pkg/kstatus/polling/event"
	"sigs.k8s.io/cli-utils/pkg/object"
)

// VerifFunnel wraps the real eventFunnel.
type VerifFunnel struct{ f *eventFunnel }

func VerifNewFunnel(ctx context.Context) *VerifFunnel { return &VerifFunnel{f: newEventFunnel(ctx)} }

func (v *VerifFunnel) Add(ch <-chan event.Event) error { return v.f.AddInputChannel(ch) }
func (v *VerifFunnel) Out() <-chan event.Event         { return v.f.OutputChannel() }
func (v *VerifFunnel) Done() <-chan struct{}           { return v.f.Done() }

// VerifStarted reports informerRefs[gkn].started for every target of a started reporter.
func VerifStarted(r *ObjectStatusReporter) map[GroupKindNamespace]bool {
	out := map[GroupKindNamespace]bool{}
	for gkn, ref := range r.informerRefs {
		ref.lock.Lock()
		out[gkn] = ref.started
		ref.lock.Unlock()
	}
	return out
}

// VerifTargets runs the target selection of DefaultStatusWatcher.Watch.
func VerifTargets(strategy RESTScopeStrategy, ids object.ObjMetadataSet) (string, []GroupKindNamespace) {
	if strategy == RESTScopeAutomatic {
		strategy = autoSelectRESTScopeStrategy(ids)
	}
	switch strategy {
	case RESTScopeRoot:
		return "root", rootScopeGKNs(ids)
	case RESTScopeNamespace:
		return "ns", namespaceScopeGKNs(ids)
	}
	return "invalid", nil
}

// VerifFatalSeq hands a sequence of errors to handleFatalError of one reporter, as its informers' handlers do one after the
// other, and returns the texts of the error events sent and whether the reporter was stopped.
func VerifFatalSeq(errs []error) (sent []string, stopped bool) {
	ctx, cancel := context.WithCancel(context.Background())
	defer cancel()
	w := &ObjectStatusReporter{context: ctx, cancel: cancel}
	ch := make(chan event.Event, len(errs)+1)
	for _, e := range errs {
		w.handleFatalError(ch, e)
	}
	close(ch)
	for e := range ch {
		if e.Type == event.ErrorEvent && e.Error != nil {
			sent = append(sent, e.Error.Error())
		} else {
			sent = append(sent, "<not an error event>")
		}
	}
	return sent, ctx.Err() != nil
}
