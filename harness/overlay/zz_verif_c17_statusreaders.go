//go:build verif

package statusreaders

// Injected by the verification harness with `go build -overlay` (not part of the repository).
// Gives the correspondence harness access to the unexported podControllerStatusReader.readStatus with its two
// collaborators (status computation, listing of generated pods) replaced by scripted results.

import (
	"context"

	"k8s.io/apimachinery/pkg/api/meta"
	"k8s.io/apimachinery/pkg/apis/meta/v1/unstructured"
	"k8s.io/apimachinery/pkg/runtime/schema"
	"sigs.k8s.io/cli-utils/pkg/kstatus/polling/engine"
	"sigs.k8s.io/cli-utils/pkg/kstatus/polling/event"
	"sigs.k8s.io/cli-utils/pkg/kstatus/status"
)

func VerifPodControllerReadStatus(ctx context.Context, obj *unstructured.Unstructured,
	pods event.ResourceStatuses, podsErr error, res *status.Result, resErr error) (*event.ResourceStatus, error) {
	p := &podControllerStatusReader{
		groupKind: schema.GroupKind{Group: "", Kind: "Pod"},
		statusFunc: func(*unstructured.Unstructured) (*status.Result, error) {
			return res, resErr
		},
		statusForGenResourcesFunc: func(context.Context, meta.RESTMapper, engine.ClusterReader, resourceTypeStatusReader,
			*unstructured.Unstructured, schema.GroupKind, ...string) (event.ResourceStatuses, error) {
			return pods, podsErr
		},
	}
	return p.readStatus(ctx, nil, obj)
}
