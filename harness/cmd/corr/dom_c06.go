package main

import (
	"encoding/json"
	"fmt"
	"sync"
	"sync/atomic"
	"time"

	"k8s.io/apimachinery/pkg/api/meta"

	"k8s.io/apimachinery/pkg/apis/meta/v1/unstructured"
	"k8s.io/apimachinery/pkg/types"
	"sigs.k8s.io/cli-utils/pkg/apis/actuation"
	"sigs.k8s.io/cli-utils/pkg/apply/cache"
	"sigs.k8s.io/cli-utils/pkg/apply/event"
	"sigs.k8s.io/cli-utils/pkg/apply/taskrunner"
	"sigs.k8s.io/cli-utils/pkg/inventory"
	"sigs.k8s.io/cli-utils/pkg/kstatus/status"
	"sigs.k8s.io/cli-utils/pkg/object"
	"sigs.k8s.io/cli-utils/pkg/testutil"
	"verif/harness/internal/proto"
)

// domain wait: the real WaitTask driven through Start / StatusUpdate / (deadline) / Cancel.
//   cond: 0 = AllCurrent, 1 = AllNotFound
//   objs[i]: null (no record in the actuation table) or [strategy, actuation, uid, gen]
//   init[i]: null (nothing cached) or obs ; obs = [status, hasRes, gen, uid]
//   ops: ["u", i, obs] status event for object i (i == len(objs): an id outside the task) | ["t"] deadline fires | ["c"] Cancel
//   crd (optional): crd[i] = object i is a CustomResourceDefinition.apiextensions.k8s.io id.  When the field is present the
//        task gets a RESTMapper that counts Reset() calls and the output has "resets" = the count once the phase has ended
//        (task result delivered), resp. at the moment the phase is found not to have ended.
type waitIn struct {
	Cond int     `json:"cond"`
	Objs [][]any `json:"objs"`
	Init [][]any `json:"init"`
	Ops  [][]any `json:"ops"`
	Crd  []bool  `json:"crd,omitempty"`
	Twin bool    `json:"twin,omitempty"` // the objects share name, namespace and kind and differ by API group only
}

// id of object i of this case
func (in waitIn) id(i int) object.ObjMetadata {
	if i < len(in.Crd) && in.Crd[i] {
		return fromJid(jid{"", fmt.Sprintf("o%d", i), "apiextensions.k8s.io", "CustomResourceDefinition"})
	}
	if in.Twin {
		return fromJid(jid{"ns", "o", []string{"", "apps", "extensions", "x.io", "y.io", "z.io", "w.io", "v.io"}[i%8], "ConfigMap"})
	}
	return waitID(i)
}

// countingMapper: a meta.ResettableRESTMapper around the mapper the tests use, counting Reset()
type countingMapper struct {
	meta.RESTMapper
	n *int32
}

func (c countingMapper) Reset() { atomic.AddInt32(c.n, 1) }

var _ meta.ResettableRESTMapper = countingMapper{}

var kstatuses = []status.Status{status.InProgressStatus, status.FailedStatus, status.CurrentStatus, status.TerminatingStatus, status.NotFoundStatus, status.UnknownStatus}

func waitID(i int) object.ObjMetadata {
	return fromJid(jid{"ns", fmt.Sprintf("o%d", i), "", "ConfigMap"})
}

func obsToCache(id object.ObjMetadata, obs []any) cache.ResourceStatus {
	rs := cache.ResourceStatus{Status: kstatuses[anyInt(obs[0])]}
	if b, _ := obs[1].(bool); b {
		u := &unstructured.Unstructured{Object: map[string]any{"apiVersion": "v1", "kind": "ConfigMap",
			"metadata": map[string]any{"name": id.Name, "namespace": id.Namespace}}}
		u.SetGeneration(int64(anyInt(obs[2])))
		if uid := anyStr(obs[3]); uid != "" {
			u.SetUID(types.UID(uid))
		}
		rs.Resource = u
	}
	return rs
}

var waitEvCode = map[event.WaitEventStatus]int{event.ReconcilePending: 0, event.ReconcileSuccessful: 1, event.ReconcileSkipped: 2, event.ReconcileTimeout: 3, event.ReconcileFailed: 4}

func runWait(in waitIn) (out map[string]any) {
	defer func() {
		if r := recover(); r != nil {
			out = map[string]any{"panic": fmt.Sprint(r)}
		}
	}()
	n := len(in.Objs)
	ids := make(object.ObjMetadataSet, n)
	idx := map[object.ObjMetadata]int{}
	for i := range ids {
		ids[i] = in.id(i)
		idx[ids[i]] = i
	}
	evCh := make(chan event.Event, 4096)
	rc := cache.NewResourceCacheMap()
	tc := taskrunner.NewTaskContext(evCh, rc)
	im := tc.InventoryManager()
	for i, o := range in.Objs {
		if o == nil {
			continue
		}
		im.SetObjectStatus(actuation.ObjectStatus{
			ObjectReference: inventory.ObjectReferenceFromObjMetadata(ids[i]),
			Strategy:        actuation.ActuationStrategy(anyInt(o[0])),
			Actuation:       actuation.ActuationStatus(anyInt(o[1])),
			Reconcile:       actuation.ReconcilePending,
			UID:             types.UID(anyStr(o[2])),
			Generation:      int64(anyInt(o[3])),
		})
	}
	for i, o := range in.Init {
		if o != nil && i < n {
			rc.Put(ids[i], obsToCache(ids[i], o))
		}
	}
	cond := taskrunner.AllCurrent
	if in.Cond == 1 {
		cond = taskrunner.AllNotFound
	}
	var resets int32
	var mapper meta.RESTMapper = testutil.NewFakeRESTMapper()
	if in.Crd != nil {
		mapper = countingMapper{RESTMapper: mapper, n: &resets}
	}
	w := taskrunner.NewWaitTask("wait-0", append(object.ObjMetadataSet{}, ids...), cond, 0, mapper)
	drain := func() [][]int {
		evs := [][]int{}
		for {
			select {
			case e := <-evCh:
				if e.Type == event.WaitType {
					i, ok := idx[e.WaitEvent.Identifier]
					if !ok {
						i = -1
					}
					evs = append(evs, []int{i, waitEvCode[e.WaitEvent.Status]})
				}
			default:
				return evs
			}
		}
	}
	ended := false
	var endMu sync.Mutex
	doneCh := make(chan struct{})
	go func() { // stands for the runner's receive on the task channel
		<-tc.TaskChannel()
		endMu.Lock()
		ended = true
		endMu.Unlock()
		close(doneCh)
	}()
	w.Start(tc)
	startEvs := drain()
	// everEmpty: the pending set was empty at some operation boundary, i.e. the code has (by its own rule) cancelled the
	// phase context; only then is the end of the phase awaited for long, which keeps `ended` free of scheduling races
	everEmpty := len(w.VerifPending()) == 0
	opEvs := make([][][]int, 0, len(in.Ops))
	explicitEnd := false
	interleavedAll := [][]int{}
	for _, op := range in.Ops {
		switch anyStr(op[0]) {
		case "u":
			i := anyInt(op[1])
			id := in.id(i)
			// what TaskStatusRunner.Run does for a status event while this task is current
			rc.Put(id, obsToCache(id, op[2].([]any)))
			if w.Identifiers().Contains(id) {
				w.StatusUpdate(tc, id)
			}
		case "t":
			w.VerifSendTimeoutEvents(tc)
			w.Cancel(tc)
			explicitEnd = true
		case "c":
			w.Cancel(tc)
			explicitEnd = true
		case "tu":
			// the deadline fires; while the Timeout events are being handed to a slow consumer (unbuffered channel), after
			// the k-th of them, the runner receives a status update for object i.  Reported as two operations: the
			// Timeout events, then the events of the update.
			tev, uev, il := waitTimeoutWithUpdate(w, tc, rc, idx, anyInt(op[1]), in.id(anyInt(op[2])), op[3].([]any))
			interleavedAll = append(interleavedAll, il...)
			w.Cancel(tc)
			explicitEnd = true
			opEvs = append(opEvs, tev, uev)
			if len(w.VerifPending()) == 0 {
				everEmpty = true
			}
			continue
		}
		opEvs = append(opEvs, drain())
		if len(w.VerifPending()) == 0 {
			everEmpty = true
		}
	}
	// has the phase ended (task result delivered)?  expected when nothing is pending or after t/c; otherwise give a
	// wrongly-cancelled task a moment to show itself
	if everEmpty || explicitEnd {
		select {
		case <-doneCh:
		case <-time.After(3 * time.Second):
		}
	} else {
		select {
		case <-doneCh:
		case <-time.After(2 * time.Millisecond):
		}
	}
	endMu.Lock()
	e := ended
	endMu.Unlock()
	// the mapper is reset by the goroutine that ends the phase, before it delivers the task result: once `ended` is seen the
	// count is final; a phase that has not ended must not have reset anything (read before the clean-up cancel below)
	nResets := int(atomic.LoadInt32(&resets))
	if !e {
		w.Cancel(tc) // let the goroutines finish
		<-doneCh
	}
	recon := make([]int, n)
	for i := range ids {
		if st, ok := im.ObjectStatus(ids[i]); ok {
			recon[i] = int(st.Reconcile)
		} else {
			recon[i] = -1
		}
	}
	out = map[string]any{"start": startEvs, "ops": opEvs, "recon": recon, "ended": e, "late": drain(), "interleaved": interleavedAll}
	if in.Crd != nil {
		out["resets"] = nResets
	}
	return out
}

func waitTimeoutWithUpdate(w *taskrunner.WaitTask, tc *taskrunner.TaskContext, rc *cache.ResourceCacheMap, idx map[object.ObjMetadata]int,
	k int, id object.ObjMetadata, obs []any) (tev, uev [][]int, interleaved [][]int) {
	tev, uev, interleaved = [][]int{}, [][]int{}, [][]int{}
	var pendingU [][]int // update events not yet followed by a Timeout event
	raw := make(chan event.Event)
	tc2 := taskrunner.VerifWithEventChannel(tc, raw)
	tdone := make(chan struct{})
	udone := make(chan struct{})
	go func() { w.VerifSendTimeoutEvents(tc2); close(tdone) }()
	launched := false
	launch := func() {
		launched = true
		go func() {
			defer close(udone)
			rc.Put(id, obsToCache(id, obs))
			if w.Identifiers().Contains(id) {
				w.StatusUpdate(tc2, id)
			}
		}()
		time.Sleep(2 * time.Millisecond) // the window in which an unsynchronised update would get through
	}
	nT := 0
	td, ud := tdone, udone
	for td != nil || ud != nil {
		select {
		case e := <-raw:
			if e.Type != event.WaitType {
				continue
			}
			j, ok := idx[e.WaitEvent.Identifier]
			if !ok {
				j = -1
			}
			code := waitEvCode[e.WaitEvent.Status]
			if code == 3 {
				// a Timeout event AFTER an event of the update: the update got through while the deadline's events were being sent
				interleaved = append(interleaved, pendingU...)
				pendingU = nil
				tev = append(tev, []int{j, code})
				nT++
				if nT == k+1 && !launched {
					launch()
				}
			} else {
				uev = append(uev, []int{j, code})
				pendingU = append(pendingU, []int{j, code})
			}
		case <-td:
			td = nil
			if !launched {
				launch()
			}
		case <-ud:
			ud = nil
		}
	}
	return tev, uev, interleaved
}

func genObs(rng *proto.Rng, appliedUID string, appliedGen int) []any {
	st := proto.Pick(rng, []int{0, 0, 1, 2, 2, 2, 3, 4, 4, 5})
	hasRes := st != 4 && st != 5
	if rng.Chance(1, 8) {
		hasRes = !hasRes
	}
	gen := appliedGen
	switch rng.Intn(5) {
	case 0:
		gen = appliedGen - 1
	case 1:
		gen = appliedGen + 1
	}
	if gen < 0 {
		gen = 0
	}
	uid := appliedUID
	switch rng.Intn(6) {
	case 0:
		uid = "other"
	case 1:
		uid = ""
	}
	if !hasRes {
		gen, uid = 0, ""
	}
	return []any{st, hasRes, gen, uid}
}

func genWaitCase(rng *proto.Rng, maxObjs, maxOps int) waitIn {
	in := waitIn{Cond: rng.Intn(2), Ops: [][]any{}, Twin: rng.Chance(1, 4)}
	n := 1 + rng.Intn(maxObjs)
	for i := 0; i < n; i++ {
		var o []any
		switch rng.Intn(10) {
		case 0:
			o = nil
		case 1:
			o = []any{in.Cond, proto.Pick(rng, []int{2, 3}), "", 0} // skipped / failed actuation of the phase's strategy
		case 2:
			o = []any{1 - in.Cond, proto.Pick(rng, []int{1, 2, 3}), "u" + fmt.Sprint(i), rng.Intn(2)} // other strategy
		default:
			uid := "u" + fmt.Sprint(i)
			if rng.Chance(1, 10) {
				uid = ""
			}
			gen := 0
			if in.Cond == 0 {
				gen = 1 + rng.Intn(2)
			}
			o = []any{in.Cond, 1, uid, gen}
		}
		in.Objs = append(in.Objs, o)
		if rng.Chance(1, 2) {
			in.Init = append(in.Init, genObs(rng, recUID(o), recGen(o)))
		} else {
			in.Init = append(in.Init, nil)
		}
	}
	if rng.Chance(1, 2) {
		// some of the objects are CRDs: the RESTMapper is reset when the phase ends unless all of them were skipped
		in.Crd = make([]bool, n)
		for i := range in.Crd {
			in.Crd[i] = rng.Chance(1, 3)
		}
	}
	k := rng.Intn(maxOps + 1)
	for j := 0; j < k; j++ {
		r := rng.Intn(40)
		switch {
		case r == 0 && j == k-1:
			in.Ops = append(in.Ops, []any{"t"})
		case r == 1 && j == k-1:
			in.Ops = append(in.Ops, []any{"c"})
		case r == 2:
			in.Ops = append(in.Ops, []any{"u", n, genObs(rng, "x", 1)})
		default:
			i := rng.Intn(n)
			in.Ops = append(in.Ops, []any{"u", i, genObs(rng, recUID(in.Objs[i]), recGen(in.Objs[i]))})
		}
	}
	hasEnd := len(in.Ops) > 0 && anyStr(in.Ops[len(in.Ops)-1][0]) != "u"
	if !hasEnd && rng.Chance(1, 10) {
		// the deadline fires and a status update arrives while the Timeout events are being delivered
		i := rng.Intn(n)
		in.Ops = append(in.Ops, []any{"tu", rng.Intn(n), i, genObs(rng, recUID(in.Objs[i]), recGen(in.Objs[i]))})
		return in
	}
	if !hasEnd && rng.Chance(1, 12) { // the deadline fires / the run is cancelled at most once
		in.Ops = append(in.Ops, []any{proto.Pick(rng, []string{"t", "c"})})
		if rng.Chance(1, 2) {
			i := rng.Intn(n)
			in.Ops = append(in.Ops, []any{"u", i, genObs(rng, recUID(in.Objs[i]), recGen(in.Objs[i]))})
		}
	}
	return in
}

func recUID(o []any) string {
	if o == nil {
		return "u"
	}
	return anyStr(o[2])
}
func recGen(o []any) int {
	if o == nil {
		return 1
	}
	return anyInt(o[3])
}

// exhaustive part: one or two objects, every sequence of up to L observations from a small set
func waitObsGrid() [][]any {
	var g [][]any
	for _, st := range []int{0, 1, 2, 4, 5} {
		if st == 4 || st == 5 {
			g = append(g, []any{st, false, 0, ""})
			continue
		}
		for _, gen := range []int{1, 2} {
			for _, uid := range []string{"u0", "other"} {
				g = append(g, []any{st, true, gen, uid})
			}
		}
	}
	return g
}

func init() {
	register("wait", domain{
		gen: func(out *proto.Out, rng *proto.Rng, tier string) {
			var cases []waitIn
			grid := waitObsGrid() // 14 observations
			L := 3
			for cond := 0; cond < 2; cond++ {
				gen := 0
				if cond == 0 {
					gen = 2
				}
				rec := []any{cond, 1, "u0", gen}
				// all sequences of length <= L (quick) for a single object, with and without initial cache entry
				var rec1 func(prefix [][]any, depth int)
				rec1 = func(prefix [][]any, depth int) {
					in := waitIn{Cond: cond, Objs: [][]any{rec}, Init: [][]any{nil}, Ops: [][]any{}}
					for _, o := range prefix {
						in.Ops = append(in.Ops, []any{"u", 0, o})
					}
					cases = append(cases, in)
					if depth == 0 {
						return
					}
					for _, o := range grid {
						rec1(append(append([][]any{}, prefix...), o), depth-1)
					}
				}
				if tier == "thorough" {
					L = 4
				}
				rec1(nil, L)
				for _, o0 := range grid {
					for _, o1 := range grid {
						cases = append(cases, waitIn{Cond: cond, Objs: [][]any{rec}, Init: [][]any{o0}, Ops: [][]any{{"u", 0, o1}}})
					}
				}
			}
			// RESTMapper reset: 1-2 objects, every actuation record x CRD or not x way of (not) ending the phase
			for cond := 0; cond < 2; cond++ {
				gen := 0
				if cond == 0 {
					gen = 1
				}
				recs := [][]any{nil, {cond, 2, "", 0}, {cond, 3, "", 0}, {1 - cond, 2, "", 0}, {1 - cond, 3, "", 0}, {cond, 1, "u", gen}, {1 - cond, 1, "u", gen}, {cond, 0, "", 0}}
				met := []any{2, true, gen, "u"} // Current at the applied generation
				if cond == 1 {
					met = []any{4, false, 0, ""} // NotFound
				}
				endings := [][][]any{{}, {{"t"}}, {{"c"}}, {{"u", 0, met}}, {{"u", 0, met}, {"c"}}, {{"u", 0, []any{0, true, gen, "u"}}}}
				for _, ops := range endings {
					for _, r0 := range recs {
						for _, c0 := range []bool{false, true} {
							cases = append(cases, waitIn{Cond: cond, Objs: [][]any{r0}, Init: [][]any{nil}, Ops: ops, Crd: []bool{c0}})
							for _, r1 := range recs {
								for _, c1 := range []bool{false, true} {
									cases = append(cases, waitIn{Cond: cond, Objs: [][]any{r0, r1}, Init: [][]any{nil, nil}, Ops: ops, Crd: []bool{c0, c1}})
								}
							}
						}
					}
				}
			}
			nRand := 6000
			if tier == "thorough" {
				nRand = 100000
			}
			for i := 0; i < nRand; i++ {
				cases = append(cases, genWaitCase(rng, 3, 8))
			}
			// run in parallel (each case has its own task context); emit in order
			res := make([]map[string]any, len(cases))
			var wg sync.WaitGroup
			sem := make(chan struct{}, 16)
			for i := range cases {
				wg.Add(1)
				sem <- struct{}{}
				go func(i int) {
					defer wg.Done()
					defer func() { <-sem }()
					res[i] = runWait(cases[i])
				}(i)
			}
			wg.Wait()
			for i := range cases {
				out.Emit("wait", cases[i], res[i])
			}
		},
		run: func(raw json.RawMessage) (any, error) {
			var in waitIn
			if err := json.Unmarshal(raw, &in); err != nil {
				return nil, err
			}
			return runWait(in), nil
		},
	})
}
