package main

// Domains for C07 / C08 / C09 (kstatus status computation):
//   status, status-c07, status-c08   status.Compute on generated well-typed objects (one stream, three labels: the Lean
//                                    handler of each label evaluates the predicate of its own property)
//   status-malformed                 kind-directed malformed objects (wrong-typed values at the paths each rule reads)
//   augment                          status.Augment, then Compute again; the whole object after Augment is the output
//   kubectl                          kubectl's rollout-status viewers next to Compute on well-typed workloads
//
// Objects are built as Go values, marshalled to JSON (that text is the case input) and decoded again with the
// apimachinery decoder (integers -> int64, other numbers -> float64), which is how objects reach this code in practice.
// Floats are only ever generated with a fractional part, so that the Lean side sees the same int/float split.

import (
	"encoding/json"
	"fmt"
	"reflect"
	"sync"
	"time"

	"k8s.io/apimachinery/pkg/apis/meta/v1/unstructured"
	"k8s.io/apimachinery/pkg/runtime/schema"
	kjson "k8s.io/apimachinery/pkg/util/json"
	"k8s.io/kubectl/pkg/polymorphichelpers"
	"sigs.k8s.io/cli-utils/pkg/kstatus/status"
	"verif/harness/internal/proto"
)

type M = map[string]interface{}
type L = []interface{}

type stIn struct {
	Obj json.RawMessage `json:"obj"`
	// W: the creation timestamp lies within the 15 s schedule window of "now". The generators only use timestamps
	// decades away from now (or none / unparsable ones), so the wall clock cannot change this bit.
	W bool `json:"w"`
}

type stOut struct {
	Panic     bool        `json:"panic"`
	Err       bool        `json:"err"`
	Status    string      `json:"status"`
	Conds     [][3]string `json:"conds"`
	Unchanged bool        `json:"unchanged"`
	Pure      bool        `json:"pure"`
	Msg       string      `json:"msg,omitempty"` // panic / error text, informational only
}

func decodeObj(raw []byte) (M, error) {
	var m M
	if err := kjson.Unmarshal(raw, &m); err != nil {
		return nil, err
	}
	if m == nil {
		return nil, fmt.Errorf("input object is not a JSON object")
	}
	return m, nil
}

// wOf mirrors Unstructured.GetCreationTimestamp: a string that parses as RFC3339, here far in the future.
func wOf(m M) bool {
	md, ok := m["metadata"].(M)
	if !ok {
		return false
	}
	s, ok := md["creationTimestamp"].(string)
	if !ok {
		return false
	}
	t, err := time.Parse(time.RFC3339, s)
	if err != nil {
		return false
	}
	return t.After(time.Now().Add(24 * time.Hour))
}

type callRes struct {
	res   *status.Result
	err   error
	panic bool
	pmsg  string
}

func callCompute(m M) (cr callRes) {
	defer func() {
		if r := recover(); r != nil {
			cr = callRes{panic: true, pmsg: fmt.Sprint(r)}
		}
	}()
	res, err := status.Compute(&unstructured.Unstructured{Object: m})
	return callRes{res: res, err: err}
}

func sameCall(a, b callRes) bool {
	if a.panic || b.panic {
		return a.panic == b.panic
	}
	if (a.err != nil) != (b.err != nil) {
		return false
	}
	if a.err != nil {
		return a.err.Error() == b.err.Error()
	}
	return reflect.DeepEqual(a.res, b.res)
}

func condsOf(r *status.Result) [][3]string {
	cs := [][3]string{}
	if r == nil {
		return cs
	}
	for _, c := range r.Conditions {
		cs = append(cs, [3]string{string(c.Type), string(c.Status), c.Reason})
	}
	return cs
}

func runStatus(raw []byte) (stOut, error) {
	a, err := decodeObj(raw)
	if err != nil {
		return stOut{}, err
	}
	b, _ := decodeObj(raw)
	r1 := callCompute(a)
	r2 := callCompute(a)
	// equal answers for equal inputs: a few more calls, so that an answer that depends on Go map iteration order shows
	pure := sameCall(r1, r2)
	for k := 0; k < 3 && pure; k++ {
		pure = sameCall(r1, callCompute(a))
	}
	o := stOut{Conds: [][3]string{}, Unchanged: reflect.DeepEqual(a, b), Pure: pure}
	switch {
	case r1.panic:
		o.Panic, o.Msg = true, r1.pmsg
	case r1.err != nil:
		o.Err, o.Msg = true, r1.err.Error()
	case r1.res == nil:
		o.Err, o.Msg = true, "nil result without error"
	default:
		o.Status = string(r1.res.Status)
		o.Conds = condsOf(r1.res)
	}
	return o, nil
}

// ---------------------------------------------------------------------------------------------------------------
// object construction

func mk(apiVersion, kind string) M {
	m := M{"metadata": M{"name": "x", "namespace": "ns"}}
	if apiVersion != "-" {
		m["apiVersion"] = apiVersion
	}
	if kind != "-" {
		m["kind"] = kind
	}
	return m
}

func setp(m M, v interface{}, path ...string) {
	cur := m
	for _, k := range path[:len(path)-1] {
		nx, ok := cur[k].(M)
		if !ok {
			nx = M{}
			cur[k] = nx
		}
		cur = nx
	}
	cur[path[len(path)-1]] = v
}

// cnt: code 0 = field absent, code k>0 = the integer k-1
func cnt(m M, code int, path ...string) {
	if code > 0 {
		setp(m, int64(code-1), path...)
	}
}

func cond(t, s, r string) M {
	c := M{"type": t, "status": s}
	if r != "" {
		c["reason"] = r
		c["message"] = "msg of " + t
	}
	return c
}

func addCond(m M, cs ...M) {
	st, ok := m["status"].(M)
	if !ok {
		st = M{}
		m["status"] = st
	}
	l, _ := st["conditions"].(L)
	for _, c := range cs {
		l = append(l, c)
	}
	st["conditions"] = l
}

func decodeRadix(idx int, radices []int) []int {
	d := make([]int, len(radices))
	for i, r := range radices {
		d[i] = idx % r
		idx /= r
	}
	return d
}

func product(radices []int) int {
	n := 1
	for _, r := range radices {
		n *= r
	}
	return n
}

type kindGrid struct {
	name    string
	radices []int
	build   func(d []int) M
	// paths the kind's rule reads (for the malformed stream); ints index into lists
	paths [][]interface{}
	// integer count fields (for the random-large-values stream)
	counts [][]string
}

const pastTS = "2000-01-01T00:00:00Z"
const futureTS = "2100-01-01T00:00:00Z"

func p(xs ...interface{}) []interface{} { return xs }

var commonPaths = [][]interface{}{
	p("metadata"), p("metadata", "deletionTimestamp"), p("metadata", "generation"), p("metadata", "creationTimestamp"),
	p("status"), p("status", "observedGeneration"), p("status", "conditions"),
	p("status", "conditions", 0), p("status", "conditions", 0, "type"), p("status", "conditions", 0, "status"),
	p("status", "conditions", 0, "reason"), p("status", "conditions", 0, "message"),
	p("status", "conditions", 1), p("status", "conditions", 1, "type"), p("status", "conditions", 1, "status"),
	p("status", "conditions", 1, "reason"), p("spec"), p("apiVersion"), p("kind"),
}

func strPaths(ps [][]string) [][]interface{} {
	var r [][]interface{}
	for _, q := range ps {
		var x []interface{}
		for _, s := range q {
			x = append(x, s)
		}
		r = append(r, x)
	}
	return r
}

var deploymentCounts = [][]string{{"spec", "replicas"}, {"status", "replicas"}, {"status", "updatedReplicas"}, {"status", "readyReplicas"}, {"status", "availableReplicas"}}

var deploymentGrid = kindGrid{
	name:    "Deployment",
	radices: []int{5, 5, 5, 5, 5, 3, 6, 3, 2},
	build: func(d []int) M {
		av := "apps/v1"
		if d[8] == 1 {
			av = "extensions/v1beta1"
		}
		m := mk(av, "Deployment")
		for i, pth := range deploymentCounts {
			cnt(m, d[i], pth...)
		}
		switch d[5] {
		case 1:
			setp(m, int64(600), "spec", "progressDeadlineSeconds")
		case 2:
			setp(m, int64(2147483647), "spec", "progressDeadlineSeconds")
		}
		var pc M
		switch d[6] {
		case 1:
			pc = cond("Progressing", "True", "NewReplicaSetAvailable")
		case 2:
			pc = cond("Progressing", "True", "ReplicaSetUpdated")
		case 3:
			pc = cond("Progressing", "False", "ProgressDeadlineExceeded")
		case 4:
			pc = cond("Progressing", "True", "ProgressDeadlineExceeded")
		case 5:
			pc = cond("Progressing", "False", "NewReplicaSetAvailable")
		}
		var ac M
		switch d[7] {
		case 1:
			ac = cond("Available", "True", "MinimumReplicasAvailable")
		case 2:
			ac = cond("Available", "False", "MinimumReplicasUnavailable")
		}
		// order of the two conditions alternates with the cell
		if (d[0]+d[1])%2 == 0 {
			if pc != nil {
				addCond(m, pc)
			}
			if ac != nil {
				addCond(m, ac)
			}
		} else {
			if ac != nil {
				addCond(m, ac)
			}
			if pc != nil {
				addCond(m, pc)
			}
		}
		return m
	},
	paths:  append(strPaths(deploymentCounts), p("spec", "progressDeadlineSeconds")),
	counts: deploymentCounts,
}

var stsCounts = [][]string{{"spec", "replicas"}, {"status", "replicas"}, {"status", "readyReplicas"}, {"status", "currentReplicas"}, {"status", "updatedReplicas"}}

var stsGrid = kindGrid{
	name:    "StatefulSet",
	radices: []int{5, 5, 5, 5, 5, 3, 5, 4},
	build: func(d []int) M {
		m := mk("apps/v1", "StatefulSet")
		for i, pth := range stsCounts {
			cnt(m, d[i], pth...)
		}
		switch d[5] {
		case 1:
			setp(m, "RollingUpdate", "spec", "updateStrategy", "type")
		case 2:
			setp(m, "OnDelete", "spec", "updateStrategy", "type")
		}
		switch d[6] {
		case 1, 2, 3:
			setp(m, int64(d[6]-1), "spec", "updateStrategy", "rollingUpdate", "partition")
		case 4:
			setp(m, int64(-1), "spec", "updateStrategy", "rollingUpdate", "partition")
		}
		switch d[7] {
		case 0:
			setp(m, "rev-1", "status", "currentRevision")
			setp(m, "rev-1", "status", "updateRevision")
		case 1:
			setp(m, "rev-1", "status", "currentRevision")
			setp(m, "rev-2", "status", "updateRevision")
		case 2:
		case 3:
			setp(m, "rev-2", "status", "updateRevision")
		}
		return m
	},
	paths: append(strPaths(stsCounts), p("spec", "updateStrategy"), p("spec", "updateStrategy", "type"),
		p("spec", "updateStrategy", "rollingUpdate"), p("spec", "updateStrategy", "rollingUpdate", "partition"),
		p("status", "currentRevision"), p("status", "updateRevision")),
	counts: append(append([][]string{}, stsCounts...), []string{"spec", "updateStrategy", "rollingUpdate", "partition"}),
}

var dsCounts = [][]string{{"status", "desiredNumberScheduled"}, {"status", "currentNumberScheduled"}, {"status", "updatedNumberScheduled"}, {"status", "numberAvailable"}, {"status", "numberReady"}}

var dsGrid = kindGrid{
	name:    "DaemonSet",
	radices: []int{6, 5, 5, 5, 5, 6, 2},
	build: func(d []int) M {
		av := "apps/v1"
		if d[6] == 1 {
			av = "extensions/v1beta1"
		}
		m := mk(av, "DaemonSet")
		if d[0] == 5 {
			setp(m, int64(-1), dsCounts[0]...)
		} else {
			cnt(m, d[0], dsCounts[0]...)
		}
		for i := 1; i < 5; i++ {
			cnt(m, d[i], dsCounts[i]...)
		}
		switch d[5] {
		case 1:
			setp(m, int64(1), "status", "observedGeneration")
		case 2:
			setp(m, int64(1), "metadata", "generation")
		case 3:
		default: // 0, 4, 5: both present and equal
			setp(m, int64(1+d[5]), "metadata", "generation")
			setp(m, int64(1+d[5]), "status", "observedGeneration")
		}
		if d[1] != 0 || d[2] != 0 {
			setp(m, "RollingUpdate", "spec", "updateStrategy", "type")
		}
		return m
	},
	paths:  strPaths(dsCounts),
	counts: dsCounts,
}

var rsCounts = [][]string{{"spec", "replicas"}, {"status", "replicas"}, {"status", "readyReplicas"}, {"status", "availableReplicas"}, {"status", "fullyLabeledReplicas"}}

var rsGrid = kindGrid{
	name:    "ReplicaSet",
	radices: []int{5, 5, 5, 5, 5, 3, 2},
	build: func(d []int) M {
		av := "apps/v1"
		if d[6] == 1 {
			av = "extensions/v1beta1"
		}
		m := mk(av, "ReplicaSet")
		for i, pth := range rsCounts {
			cnt(m, d[i], pth...)
		}
		switch d[5] {
		case 1:
			addCond(m, cond("ReplicaFailure", "True", "FailedCreate"))
		case 2:
			addCond(m, cond("ReplicaFailure", "False", "x"))
		}
		return m
	},
	paths:  strPaths(rsCounts),
	counts: rsCounts,
}

func cstatus(name string, state M) M {
	c := M{"ready": false, "restartCount": int64(3)}
	if name != "" {
		c["name"] = name
	}
	if state != nil {
		c["state"] = state
	}
	return c
}

func waiting(reason string) M { return M{"waiting": M{"reason": reason, "message": "back-off"}} }

var podPhases = []string{"-", "", "Pending", "Running", "Succeeded", "Failed", "Unknown", "Weird"}

var podGrid = kindGrid{
	name:    "Pod",
	radices: []int{8, 4, 5, 12, 3},
	build: func(d []int) M {
		m := mk("v1", "Pod")
		if ph := podPhases[d[0]]; ph != "-" {
			setp(m, ph, "status", "phase")
		}
		var sched []M
		switch d[2] {
		case 1:
			sched = []M{cond("PodScheduled", "False", "Unschedulable")}
		case 2:
			sched = []M{cond("PodScheduled", "False", "SchedulerError")}
		case 3:
			sched = []M{cond("PodScheduled", "True", "Unschedulable")}
		case 4:
			sched = []M{cond("PodScheduled", "False", "SchedulerError"), cond("PodScheduled", "False", "Unschedulable")}
		}
		addCond(m, sched...)
		switch d[1] {
		case 1:
			addCond(m, cond("Ready", "True", ""))
		case 2:
			addCond(m, cond("Ready", "False", "ContainersNotReady"))
		case 3:
			addCond(m, cond("Ready", "Unknown", "x"))
		}
		switch d[3] {
		case 1:
			setp(m, L{}, "status", "containerStatuses")
		case 2:
			setp(m, L{cstatus("a", M{"running": M{"startedAt": pastTS}})}, "status", "containerStatuses")
		case 3:
			setp(m, L{cstatus("a", waiting("CrashLoopBackOff"))}, "status", "containerStatuses")
		case 4:
			setp(m, L{cstatus("a", waiting("ContainerCreating"))}, "status", "containerStatuses")
		case 5:
			setp(m, L{cstatus("a", M{"running": M{}}), cstatus("b", waiting("CrashLoopBackOff"))}, "status", "containerStatuses")
		case 6:
			setp(m, L{cstatus("", waiting("CrashLoopBackOff"))}, "status", "containerStatuses")
		case 7:
			setp(m, L{cstatus("a", nil)}, "status", "containerStatuses")
		case 8:
			setp(m, L{cstatus("a", M{})}, "status", "containerStatuses")
		case 9:
			setp(m, L{cstatus("a", M{"waiting": M{}})}, "status", "containerStatuses")
		case 10: // several crash-looping containers: the message lists them in containerStatuses order, every time
			setp(m, L{cstatus("nginx", waiting("CrashLoopBackOff")), cstatus("istio-proxy", waiting("CrashLoopBackOff")),
				cstatus("logshipper", waiting("CrashLoopBackOff"))}, "status", "containerStatuses")
		case 11:
			setp(m, L{cstatus("b", waiting("CrashLoopBackOff")), cstatus("s", M{"running": M{}}), cstatus("a", waiting("CrashLoopBackOff")),
				cstatus("t", M{"terminated": M{"exitCode": int64(0)}}), cstatus("b", waiting("CrashLoopBackOff"))}, "status", "containerStatuses")
		}
		switch d[4] {
		case 1:
			setp(m, pastTS, "metadata", "creationTimestamp")
		case 2:
			setp(m, futureTS, "metadata", "creationTimestamp")
		}
		return m
	},
	paths: [][]interface{}{p("status", "phase"), p("status", "containerStatuses"), p("status", "containerStatuses", 0),
		p("status", "containerStatuses", 0, "name"), p("status", "containerStatuses", 0, "state"),
		p("status", "containerStatuses", 0, "state", "waiting"), p("status", "containerStatuses", 0, "state", "waiting", "reason"),
		p("status", "containerStatuses", 1), p("status", "containerStatuses", 1, "name"), p("status", "containerStatuses", 1, "state"),
		p("status", "containerStatuses", 1, "state", "waiting"), p("status", "containerStatuses", 1, "state", "waiting", "reason")},
}

var jobGrid = kindGrid{
	name:    "Job",
	radices: []int{3, 3, 2, 3, 3, 3},
	build: func(d []int) M {
		m := mk("batch/v1", "Job")
		var cc, fc M
		switch d[0] {
		case 1:
			cc = cond("Complete", "True", "Done")
		case 2:
			cc = cond("Complete", "False", "x")
		}
		switch d[1] {
		case 1:
			fc = cond("Failed", "True", "BackoffLimitExceeded")
		case 2:
			fc = cond("Failed", "False", "x")
		}
		first, second := cc, fc
		if d[2] == 1 {
			first, second = fc, cc
		}
		if first != nil {
			addCond(m, first)
		}
		if second != nil {
			addCond(m, second)
		}
		switch d[3] {
		case 1:
			setp(m, "", "status", "startTime")
		case 2:
			setp(m, pastTS, "status", "startTime")
		}
		cnt(m, d[4], "spec", "parallelism")
		cnt(m, d[5], "status", "succeeded")
		cnt(m, d[5], "status", "failed")
		cnt(m, d[4], "spec", "completions")
		return m
	},
	paths:  [][]interface{}{p("status", "startTime"), p("spec", "parallelism"), p("spec", "completions"), p("status", "succeeded"), p("status", "active"), p("status", "failed")},
	counts: [][]string{{"spec", "parallelism"}, {"spec", "completions"}, {"status", "succeeded"}, {"status", "active"}, {"status", "failed"}},
}

var pvcPhases = []string{"-", "", "Bound", "Pending", "Lost", "unknown"}

var pvcGrid = kindGrid{
	name:    "PersistentVolumeClaim",
	radices: []int{6},
	build: func(d []int) M {
		m := mk("v1", "PersistentVolumeClaim")
		if ph := pvcPhases[d[0]]; ph != "-" {
			setp(m, ph, "status", "phase")
		}
		return m
	},
	paths: [][]interface{}{p("status", "phase")},
}

var svcTypes = []string{"-", "ClusterIP", "LoadBalancer", "NodePort", ""}
var svcIPs = []string{"-", "", "10.0.0.1", "None"}

var svcGrid = kindGrid{
	name:    "Service",
	radices: []int{5, 4},
	build: func(d []int) M {
		m := mk("v1", "Service")
		if t := svcTypes[d[0]]; t != "-" {
			setp(m, t, "spec", "type")
		}
		if ip := svcIPs[d[1]]; ip != "-" {
			setp(m, ip, "spec", "clusterIP")
		}
		return m
	},
	paths: [][]interface{}{p("spec", "type"), p("spec", "clusterIP")},
}

var crdGrid = kindGrid{
	name:    "CustomResourceDefinition",
	radices: []int{3, 5, 2},
	build: func(d []int) M {
		m := mk("apiextensions.k8s.io/v1", "CustomResourceDefinition")
		var nc, ec M
		switch d[0] {
		case 1:
			nc = cond("NamesAccepted", "True", "NoConflicts")
		case 2:
			nc = cond("NamesAccepted", "False", "MultipleNamesNotAllowed")
		}
		switch d[1] {
		case 1:
			ec = cond("Established", "True", "InitialNamesAccepted")
		case 2:
			ec = cond("Established", "False", "Installing")
		case 3:
			ec = cond("Established", "False", "NotAccepted")
		case 4:
			ec = cond("Established", "Unknown", "x")
		}
		first, second := nc, ec
		if d[2] == 1 {
			first, second = ec, nc
		}
		if first != nil {
			addCond(m, first)
		}
		if second != nil {
			addCond(m, second)
		}
		return m
	},
}

var alwaysKinds = [][2]string{{"v1", "Secret"}, {"v1", "ConfigMap"}, {"batch/v1", "CronJob"}, {"policy/v1", "PodDisruptionBudget"}}

var alwaysGrid = kindGrid{
	name:    "always",
	radices: []int{4, 3},
	build: func(d []int) M {
		k := alwaysKinds[d[0]]
		m := mk(k[0], k[1])
		switch d[1] {
		case 1:
			setp(m, int64(0), "status", "replicas")
		case 2:
			addCond(m, cond("Ready", "False", "x"))
		}
		return m
	},
}

// custom kinds (no kind-specific rule): several apiVersion/kind shapes, crossed with Ready-condition states
var customKinds = [][2]string{
	{"example.com/v1", "Foo"}, {"v1", "Foo"}, {"apps/v1", "Foo"}, {"extensions/v1beta1", "StatefulSet"},
	{"a/b/c", "Deployment"}, {"-", "Deployment"}, {"apps/v1", "-"}, {"batch/v1beta1", "Job2"}, {"apps/v1", "deployment"},
}

// every Kind name that has a kind-specific rule, under every group that does NOT select that rule (the dispatch key is
// "group/Kind", or "Kind" for the core group): a custom resource that merely shares the name of a built-in kind, and a
// built-in kind name under the wrong group, must be judged by the generic rules
func init() {
	builtin := map[string]bool{"/Service": true, "/Pod": true, "/Secret": true, "/PersistentVolumeClaim": true, "/ConfigMap": true,
		"apps/StatefulSet": true, "apps/DaemonSet": true, "extensions/DaemonSet": true, "apps/Deployment": true, "extensions/Deployment": true,
		"apps/ReplicaSet": true, "extensions/ReplicaSet": true, "policy/PodDisruptionBudget": true, "batch/CronJob": true, "batch/Job": true,
		"apiextensions.k8s.io/CustomResourceDefinition": true}
	kinds := []string{"Service", "Pod", "Secret", "PersistentVolumeClaim", "ConfigMap", "StatefulSet", "DaemonSet", "Deployment", "ReplicaSet",
		"PodDisruptionBudget", "CronJob", "Job", "CustomResourceDefinition"}
	groups := []string{"", "apps", "extensions", "batch", "policy", "apiextensions.k8s.io", "example.com", "serving.knative.dev"}
	for _, k := range kinds {
		for _, g := range groups {
			if builtin[g+"/"+k] {
				continue
			}
			av := "v1"
			if g != "" {
				av = g + "/v1"
			}
			customKinds = append(customKinds, [2]string{av, k})
		}
	}
	customGrid.radices[0] = len(customKinds)
}

var customGrid = kindGrid{
	name:    "custom",
	radices: []int{9, 8, 2},
	build: func(d []int) M {
		k := customKinds[d[0]]
		m := mk(k[0], k[1])
		switch d[1] {
		case 1:
			addCond(m, cond("Ready", "True", "Ok"))
		case 2:
			addCond(m, cond("Ready", "False", "NotYet"))
		case 3:
			addCond(m, cond("Ready", "Unknown", "Dunno"))
		case 4:
			addCond(m, cond("Ready", "Maybe", "x"))
		case 5:
			addCond(m, cond("Ready", "Maybe", "x"), cond("Ready", "False", "Second"))
		case 6:
			addCond(m, cond("Synced", "False", "x"), cond("Ready", "True", "Ok"))
		case 7:
			addCond(m, cond("ready", "False", "lowercase"))
		}
		if d[2] == 1 {
			// fields that only matter to built-in rules
			setp(m, int64(3), "spec", "replicas")
			setp(m, int64(0), "status", "replicas")
			setp(m, "Pending", "status", "phase")
		}
		return m
	},
}

var builtinGrids = []*kindGrid{&deploymentGrid, &stsGrid, &dsGrid, &rsGrid, &podGrid, &jobGrid, &pvcGrid, &svcGrid, &crdGrid, &alwaysGrid}
var allGrids = append(append([]*kindGrid{}, builtinGrids...), &customGrid)

// ---------------------------------------------------------------------------------------------------------------
// generic signals

type gctx struct {
	del    int // 0 absent, 1 "", 2 set
	gen    int // 0 keep, 1 (1,-), 2 (-,1), 3 (1,1), 4 (2,1), 5 (1,2), 6 (-,-)
	conds  []M
	before bool
}

var genericCondTypes = []string{"Reconciling", "Stalled", "Ready"}
var genericCondStatus = []string{"True", "False", "Unknown"}

func genericCond(i int) M {
	t, s := genericCondTypes[i/3], genericCondStatus[i%3]
	return cond(t, s, "R"+t[:2]+s[:1])
}

// all sequences of at most 2 generic conditions: index 0 = empty, 1..9 singletons, 10..90 pairs
func genericSeq(i int) []M {
	switch {
	case i == 0:
		return nil
	case i < 10:
		return []M{genericCond(i - 1)}
	default:
		j := i - 10
		return []M{genericCond(j / 9), genericCond(j % 9)}
	}
}

const nGenericSeq = 91

var delTexts = []string{"2020-02-02T02:02:02Z", "2020-02-02T02:02:02Z", "0001-01-01T00:00:00Z", "2020-02-02T02:02:02.123456Z", "null", "2024-05-01 10:00:00", "2024-05-01T10:00:00+0000", "x"}
var delTextN int

func applyGeneric(m M, g gctx) {
	switch g.del {
	case 1:
		setp(m, "", "metadata", "deletionTimestamp")
	case 2:
		// any non-empty text marks the object as being deleted, whether or not it parses as a time
		delTextN++
		setp(m, delTexts[delTextN%len(delTexts)], "metadata", "deletionTimestamp")
	}
	setGen := func(gen, obs int64) {
		md, _ := m["metadata"].(M)
		delete(md, "generation")
		if st, ok := m["status"].(M); ok {
			delete(st, "observedGeneration")
		}
		if gen > 0 {
			setp(m, gen, "metadata", "generation")
		}
		if obs > 0 {
			setp(m, obs, "status", "observedGeneration")
		}
	}
	switch g.gen {
	case 1:
		setGen(1, 0)
	case 2:
		setGen(0, 1)
	case 3:
		setGen(1, 1)
	case 4:
		setGen(2, 1)
	case 5:
		setGen(1, 2)
	case 6:
		setGen(0, 0)
	// explicit zeros: a field that is PRESENT with the value 0 is not an absent field
	case 7:
		setGen(1, 0)
		setp(m, int64(0), "status", "observedGeneration")
	case 8:
		setGen(0, 1)
		setp(m, int64(0), "metadata", "generation")
	case 9:
		setGen(0, 0)
		setp(m, int64(0), "metadata", "generation")
		setp(m, int64(0), "status", "observedGeneration")
	case 10:
		setGen(3, 0)
		setp(m, int64(0), "status", "observedGeneration")
	}
	if len(g.conds) > 0 {
		var old L
		if st, ok := m["status"].(M); ok {
			old, _ = st["conditions"].(L)
		}
		var nl L
		if g.before {
			for _, c := range g.conds {
				nl = append(nl, c)
			}
			nl = append(nl, old...)
		} else {
			nl = append(nl, old...)
			for _, c := range g.conds {
				nl = append(nl, c)
			}
		}
		setp(m, nl, "status", "conditions")
	}
}

func gctxOf(idx int) gctx {
	d := decodeRadix(idx, []int{3, 11, nGenericSeq, 2})
	return gctx{del: d[0], gen: d[1], conds: genericSeq(d[2]), before: d[3] == 1}
}

const nGctx = 3 * 11 * nGenericSeq * 2

func randomGctx(r *proto.Rng) gctx {
	g := gctx{before: r.Bool()}
	if r.Chance(1, 6) {
		g.del = 1 + r.Intn(2)
	}
	if r.Chance(1, 3) {
		g.gen = 1 + r.Intn(10)
	}
	if r.Chance(1, 2) {
		g.conds = genericSeq(r.Intn(nGenericSeq))
		if r.Chance(1, 4) {
			g.conds = append(g.conds, genericCond(r.Intn(9)))
		}
	}
	return g
}

// ---------------------------------------------------------------------------------------------------------------
// sampling: a bijection of Z_n, so that a prefix of it is a well-spread sample without repeats

func gcd(a, b int) int {
	for b != 0 {
		a, b = b, a%b
	}
	return a
}

type perm struct{ n, a, b int }

func newPerm(n int, r *proto.Rng) perm {
	if n <= 1 {
		return perm{n: n, a: 1}
	}
	a := 1000003 % n
	if a == 0 {
		a = 1
	}
	for gcd(a, n) != 1 {
		a++
		if a >= n {
			a = 1
		}
	}
	return perm{n: n, a: a, b: r.Intn(n)}
}

func (p perm) at(j int) int {
	if p.n <= 1 {
		return 0
	}
	return int((uint64(p.a)*uint64(j) + uint64(p.b)) % uint64(p.n))
}

// ---------------------------------------------------------------------------------------------------------------
// the well-typed stream

// job = one case to compute; jobs are produced sequentially from the one PRNG and evaluated by a worker pool,
// output order = production order (deterministic for a given VERIF_SEED)
type job struct {
	raw []byte
	w   bool
}

type emitter struct {
	out  *proto.Out
	dom  string
	run  func(raw []byte) (any, error)
	jobs []job
}

func (e *emitter) add(m M) {
	raw, err := json.Marshal(m)
	if err != nil {
		panic(err)
	}
	e.jobs = append(e.jobs, job{raw: raw, w: wOf(m)})
	if len(e.jobs) >= 8192 {
		e.flush()
	}
}

func (e *emitter) flush() {
	n := len(e.jobs)
	outs := make([]any, n)
	var wg sync.WaitGroup
	workers := 12
	chunk := (n + workers - 1) / workers
	for w := 0; w < workers; w++ {
		lo, hi := w*chunk, (w+1)*chunk
		if hi > n {
			hi = n
		}
		if lo >= hi {
			break
		}
		wg.Add(1)
		go func(lo, hi int) {
			defer wg.Done()
			for i := lo; i < hi; i++ {
				o, err := e.run(e.jobs[i].raw)
				if err != nil {
					o = map[string]any{"harness_error": err.Error()}
				}
				outs[i] = o
			}
		}(lo, hi)
	}
	wg.Wait()
	for i, j := range e.jobs {
		e.out.Emit(e.dom, stIn{Obj: j.raw, W: j.w}, outs[i])
	}
	e.jobs = e.jobs[:0]
}

func largeCount(r *proto.Rng) int64 {
	switch r.Intn(6) {
	case 0:
		return int64(r.Intn(4))
	case 1:
		return -int64(1 + r.Intn(3))
	case 2:
		return int64(1) << uint(10+r.Intn(30))
	default:
		return int64(r.Next() % (1 << 40))
	}
}

// gridCells: nQuick sampled cells (all cells when thorough or when the grid is small) with no generic context,
// plus one in `extra` of them again under a random generic context
func gridCells(e *emitter, g *kindGrid, r *proto.Rng, tier string, nQuick int, extra int) {
	n := product(g.radices)
	take := n
	if tier != "thorough" && nQuick < n {
		take = nQuick
	}
	pm := newPerm(n, r)
	for j := 0; j < take; j++ {
		d := decodeRadix(pm.at(j), g.radices)
		e.add(g.build(d))
		if extra > 0 && r.Intn(extra) == 0 {
			m := g.build(d)
			applyGeneric(m, randomGctx(r))
			e.add(m)
		}
	}
}

// largeValues: cells whose count fields are overwritten by random large / negative values; some made consistent
// (all counts equal) so that the Current branch is reached with large values too
func largeValues(e *emitter, g *kindGrid, r *proto.Rng, n int) {
	if len(g.counts) == 0 {
		return
	}
	cells := product(g.radices)
	for i := 0; i < n; i++ {
		m := g.build(decodeRadix(r.Intn(cells), g.radices))
		same := r.Chance(1, 3)
		v := largeCount(r)
		for _, pth := range g.counts {
			if r.Chance(1, 8) {
				continue
			}
			x := v
			if !same {
				x = largeCount(r)
			} else if r.Chance(1, 6) {
				x = v + int64(r.Intn(3)) - 1
			}
			if pth[len(pth)-1] == "partition" {
				x = int64(r.Intn(5)) - 1
			}
			setp(m, x, pth...)
		}
		e.add(m)
	}
}

// c08Stream: per-kind grids, mostly without generic signal
func c08Stream(e *emitter, r *proto.Rng, tier string, scale int) {
	quick := map[string]int{"Deployment": 30000, "StatefulSet": 30000, "DaemonSet": 12000, "ReplicaSet": 9375, "Pod": 4800}
	for _, g := range allGrids {
		nq := quick[g.name]
		if nq == 0 {
			nq = 1 << 30
		}
		nq = nq * scale / 100
		if nq < 200 {
			nq = 200
		}
		gridCells(e, g, r, tier, nq, 12)
		nl := 1500 * scale / 100
		if tier == "thorough" {
			nl = 20000
		}
		largeValues(e, g, r, nl)
	}
}

// c07Stream: every combination of deletionTimestamp x generation/observedGeneration x up to two generic conditions
// (before or after the kind's own conditions), over base objects of every kind (custom kinds weighted up)
func c07Stream(e *emitter, r *proto.Rng, tier string, nQuick int) {
	var bases []func() M
	for _, g := range allGrids {
		g := g
		cells := product(g.radices)
		k := 5
		if g.name == "custom" {
			k = cells
		}
		if k > cells {
			k = cells
		}
		pm := newPerm(cells, r)
		for j := 0; j < k; j++ {
			idx := pm.at(j)
			bases = append(bases, func() M { return g.build(decodeRadix(idx, g.radices)) })
		}
	}
	total := len(bases) * nGctx
	take := total
	if tier != "thorough" && nQuick < total {
		take = nQuick
	}
	pm := newPerm(total, r)
	for j := 0; j < take; j++ {
		idx := pm.at(j)
		m := bases[idx%len(bases)]()
		applyGeneric(m, gctxOf(idx/len(bases)))
		e.add(m)
	}
	// three or more generic conditions, random
	n3 := take / 20
	for j := 0; j < n3; j++ {
		m := bases[r.Intn(len(bases))]()
		g := randomGctx(r)
		for k := 0; k < 3+r.Intn(2); k++ {
			g.conds = append(g.conds, genericCond(r.Intn(9)))
		}
		applyGeneric(m, g)
		e.add(m)
	}
}

func runStatusAny(raw []byte) (any, error) { return runStatus(raw) }

func statusRun(raw json.RawMessage) (any, error) {
	var in stIn
	if err := json.Unmarshal(raw, &in); err != nil {
		return nil, err
	}
	return runStatus(in.Obj)
}

// ---------------------------------------------------------------------------------------------------------------
// the malformed stream

func badValue(r *proto.Rng) interface{} { return badValueCase(r.Intn(13)) }

// badValueCase builds a FRESH value each time (the same value must never be shared between two places of one object)
func badValueCase(c int) interface{} {
	switch c {
	case 0:
		return nil
	case 1:
		return "x"
	case 2:
		return ""
	case 3:
		return int64(7)
	case 4:
		return 1.5
	case 5:
		return true
	case 6:
		return L{}
	case 7:
		return M{}
	case 8:
		return L{"x"}
	case 9:
		return L{nil}
	case 10:
		return M{"a": int64(1)}
	case 11:
		return L{M{}}
	default:
		return "CrashLoopBackOff"
	}
}

// setAt replaces the subtree at path (strings index maps, ints index lists), creating maps / extending lists on the way
func setAt(root interface{}, path []interface{}, v interface{}) interface{} {
	if len(path) == 0 {
		return v
	}
	switch k := path[0].(type) {
	case string:
		m, ok := root.(M)
		if !ok {
			m = M{}
		}
		m[k] = setAt(m[k], path[1:], v)
		return m
	case int:
		l, ok := root.(L)
		if !ok {
			l = L{}
		}
		for len(l) <= k {
			l = append(l, M{})
		}
		l[k] = setAt(l[k], path[1:], v)
		return l
	}
	return root
}

func malformedStream(e *emitter, r *proto.Rng, tier string) {
	n := 30000
	if tier == "thorough" {
		n = 400000
	}
	for i := 0; i < n; i++ {
		g := allGrids[r.Intn(len(allGrids))]
		if r.Chance(1, 3) {
			g = &podGrid
		}
		d := decodeRadix(r.Intn(product(g.radices)), g.radices)
		if g == &podGrid && r.Chance(3, 4) {
			// steer to the branch that reads containerStatuses: Running, not Ready
			d[0] = 3
			if d[1] == 1 {
				d[1] = 2
			}
			if r.Chance(1, 2) {
				d[3] = 2 + r.Intn(8)
			}
		}
		m := g.build(d)
		if r.Chance(1, 4) {
			applyGeneric(m, randomGctx(r))
		}
		paths := append(append([][]interface{}{}, commonPaths...), g.paths...)
		if g == &podGrid && r.Chance(2, 3) {
			paths = g.paths
		}
		k := 1 + r.Intn(3)
		var root interface{} = m
		if r.Chance(1, 4) && len(g.paths) >= 2 {
			// the SAME wrong-typed value at two of the kind's own paths (rules that compare two fields with each other meet two
			// maps, two lists, …)
			c := r.Intn(13)
			a := r.Intn(len(g.paths))
			b := (a + 1 + r.Intn(len(g.paths)-1)) % len(g.paths)
			root = setAt(root, g.paths[a], badValueCase(c))
			root = setAt(root, g.paths[b], badValueCase(c))
			k--
		}
		for j := 0; j < k; j++ {
			root = setAt(root, paths[r.Intn(len(paths))], badValue(r))
		}
		mm, ok := root.(M)
		if !ok {
			continue
		}
		e.add(mm)
	}
}

// ---------------------------------------------------------------------------------------------------------------
// Augment

type augOut struct {
	Panic bool   `json:"panic"`
	Err   bool   `json:"err"`
	S0    string `json:"s0"` // Compute before ("err"/"panic" when no result)
	S1    string `json:"s1"` // Compute after Augment
	MsgOk bool   `json:"msgOk"`
	After M      `json:"after"`
	Msg   string `json:"msg,omitempty"`
}

func statusWord(c callRes) string {
	switch {
	case c.panic:
		return "panic"
	case c.err != nil || c.res == nil:
		return "err"
	}
	return string(c.res.Status)
}

func runAugment(raw []byte) (any, error) {
	a, err := decodeObj(raw)
	if err != nil {
		return nil, err
	}
	c, _ := decodeObj(raw)
	r0 := callCompute(c)
	o := augOut{S0: statusWord(r0), MsgOk: true}
	t0 := time.Now().UTC()
	func() {
		defer func() {
			if r := recover(); r != nil {
				o.Panic, o.Msg = true, fmt.Sprint(r)
			}
		}()
		if err := status.Augment(&unstructured.Unstructured{Object: a}); err != nil {
			o.Err, o.Msg = true, err.Error()
		}
	}()
	t1 := time.Now().UTC()
	o.S1 = statusWord(callCompute(a))
	// canonicalise what Augment wrote: the current time and the result's message
	nows := map[string]bool{}
	for t := t0.Truncate(time.Second); !t.After(t1); t = t.Add(time.Second) {
		nows[t.Format(time.RFC3339)] = true
	}
	after, _ := decodeObjFromValue(a)
	if r0.res != nil && len(r0.res.Conditions) > 0 && !o.Err && !o.Panic {
		rc := r0.res.Conditions[0]
		if st, ok := after["status"].(M); ok {
			if l, ok := st["conditions"].(L); ok {
				for _, it := range l {
					cm, ok := it.(M)
					if !ok || cm["type"] != string(rc.Type) {
						continue
					}
					if cm["message"] == rc.Message {
						cm["message"] = "<msg>"
					} else {
						o.MsgOk = false
					}
					for _, k := range []string{"lastUpdateTime", "lastTransitionTime"} {
						if s, ok := cm[k].(string); ok && nows[s] {
							cm[k] = "<now>"
						}
					}
				}
			}
		}
	}
	o.After = after
	return o, nil
}

// decodeObjFromValue: a JSON round trip (deep copy in the decoder's own value types)
func decodeObjFromValue(m M) (M, error) {
	raw, err := json.Marshal(m)
	if err != nil {
		return M{}, err
	}
	return decodeObj(raw)
}

func augmentStream(e *emitter, r *proto.Rng, tier string) {
	n := 40000
	if tier == "thorough" {
		n = 400000
	}
	stdStatuses := []string{"True", "False", "Unknown"}
	for i := 0; i < n; i++ {
		g := allGrids[r.Intn(len(allGrids))]
		m := g.build(decodeRadix(r.Intn(product(g.radices)), g.radices))
		if r.Chance(2, 3) {
			applyGeneric(m, randomGctx(r))
		}
		// pre-existing standard conditions in assorted shapes (extra keys, repeats, old timestamps)
		for k := r.Intn(3); k > 0; k-- {
			c := cond(proto.Pick(r, []string{"Reconciling", "Stalled"}), proto.Pick(r, stdStatuses), proto.Pick(r, []string{"", "Old", "LessReplicas"}))
			if r.Bool() {
				c["lastTransitionTime"] = pastTS
				c["lastUpdateTime"] = pastTS
			}
			if r.Chance(1, 4) {
				c["observedGeneration"] = int64(3)
			}
			if r.Chance(1, 5) {
				c["status"] = "False"
			}
			if r.Bool() {
				addCond(m, c)
			} else {
				var old L
				if st, ok := m["status"].(M); ok {
					old, _ = st["conditions"].(L)
				}
				setp(m, append(L{c}, old...), "status", "conditions")
			}
		}
		switch r.Intn(12) {
		case 0:
			// malformed condition entries / status
			var root interface{} = m
			ps := [][]interface{}{p("status", "conditions", 0), p("status", "conditions", 0, "type"), p("status", "conditions", 0, "status"),
				p("status", "conditions", 1), p("status", "conditions", 1, "type"), p("status", "conditions", 1, "status"),
				p("status", "conditions", 0, "reason"), p("status", "conditions"), p("status")}
			root = setAt(root, ps[r.Intn(len(ps))], badValue(r))
			m = root.(M)
		case 1:
			delete(m, "status")
		case 2:
			if st, ok := m["status"].(M); ok {
				delete(st, "conditions")
			}
		}
		e.add(m)
	}
}

// ---------------------------------------------------------------------------------------------------------------
// kubectl rollout status next to Compute (well-typed workloads only)

type kubectlOut struct {
	KStatus string `json:"kstatus"` // Compute: status word or err/panic
	Done    bool   `json:"done"`
	Err     bool   `json:"err"`
	Msg     string `json:"msg,omitempty"`
}

func runKubectl(raw []byte) (any, error) {
	a, err := decodeObj(raw)
	if err != nil {
		return nil, err
	}
	b, _ := decodeObj(raw)
	o := kubectlOut{KStatus: statusWord(callCompute(a))}
	u := &unstructured.Unstructured{Object: b}
	gk := schema.GroupKind{Group: u.GroupVersionKind().Group, Kind: u.GetKind()}
	v, err := polymorphichelpers.StatusViewerFor(gk)
	if err != nil {
		return nil, err
	}
	func() {
		defer func() {
			if r := recover(); r != nil {
				o.Err, o.Msg = true, "panic: "+fmt.Sprint(r)
			}
		}()
		_, done, err := v.Status(u, 0)
		o.Done = done && err == nil
		if err != nil {
			o.Err, o.Msg = true, err.Error()
		}
	}()
	return o, nil
}

func kubectlStream(e *emitter, r *proto.Rng, tier string) {
	for _, g := range []*kindGrid{&deploymentGrid, &stsGrid, &dsGrid} {
		n := product(g.radices)
		take := n
		if tier != "thorough" && take > 25000 {
			take = 25000
		}
		pm := newPerm(n, r)
		for j := 0; j < take; j++ {
			d := decodeRadix(pm.at(j), g.radices)
			if g == &deploymentGrid {
				d[8] = 0 // kubectl has no viewer difference for extensions; keep apps/v1
			}
			if g == &dsGrid {
				d[6] = 0
			}
			m := g.build(d)
			// generation fields: mostly present and equal (the hypothesis of the comparison), sometimes not
			switch r.Intn(8) {
			case 0:
				applyGeneric(m, gctx{gen: 1 + r.Intn(6)})
			case 1:
			default:
				if g != &dsGrid {
					applyGeneric(m, gctx{gen: 3})
				}
			}
			e.add(m)
		}
	}
}

// ---------------------------------------------------------------------------------------------------------------

func rawRunner(f func(raw []byte) (any, error)) func(json.RawMessage) (any, error) {
	return func(raw json.RawMessage) (any, error) {
		var in stIn
		if err := json.Unmarshal(raw, &in); err != nil {
			return nil, err
		}
		return f(in.Obj)
	}
}

func init() {
	// one well-typed stream under three labels; the mix differs (C08: grids, C07: generic combinations, C09: both)
	register("status-c08", domain{gen: func(out *proto.Out, rng *proto.Rng, tier string) {
		e := &emitter{out: out, dom: "status-c08", run: runStatusAny}
		c08Stream(e, rng, tier, 100)
		e.flush()
	}, run: statusRun})
	register("status-c07", domain{gen: func(out *proto.Out, rng *proto.Rng, tier string) {
		e := &emitter{out: out, dom: "status-c07", run: runStatusAny}
		c07Stream(e, rng, tier, 90000)
		c08Stream(e, rng, "quick", 10)
		e.flush()
	}, run: statusRun})
	register("status", domain{gen: func(out *proto.Out, rng *proto.Rng, tier string) {
		e := &emitter{out: out, dom: "status", run: runStatusAny}
		c08Stream(e, rng, tier, 50)
		c07Stream(e, rng, tier, 40000)
		e.flush()
	}, run: statusRun})
	register("status-malformed", domain{gen: func(out *proto.Out, rng *proto.Rng, tier string) {
		e := &emitter{out: out, dom: "status-malformed", run: runStatusAny}
		malformedStream(e, rng, tier)
		e.flush()
	}, run: statusRun})
	register("augment", domain{gen: func(out *proto.Out, rng *proto.Rng, tier string) {
		e := &emitter{out: out, dom: "augment", run: runAugment}
		augmentStream(e, rng, tier)
		e.flush()
	}, run: rawRunner(runAugment)})
	register("kubectl", domain{gen: func(out *proto.Out, rng *proto.Rng, tier string) {
		e := &emitter{out: out, dom: "kubectl", run: runKubectl}
		kubectlStream(e, rng, tier)
		e.flush()
	}, run: rawRunner(runKubectl)})
}
