package main

// domain runnercache: the REAL TaskStatusRunner.Run with one task held open while a scripted watcher feeds status events.
// What the runner does with a status event is the ground the wait phases (C06) and the apply-time mutator (C18: "source
// looked up from the reconciled cache") stand on: the resource cache must hold, for every object, the LAST status and
// object body reported for it, the running task must be told about every event for one of its objects, and with
// EmitStatusEvents every event is forwarded.  Deliveries are rendezvous with the runner's select loop (scriptedWatcher.send
// returns once the event has been received) followed by a fence event, so the observations are schedule-independent.

import (
	"errors"
	"context"
	"encoding/json"
	"fmt"
	"sync"
	"time"

	"k8s.io/apimachinery/pkg/apis/meta/v1/unstructured"
	"k8s.io/apimachinery/pkg/types"
	"sigs.k8s.io/cli-utils/pkg/apply/cache"
	"sigs.k8s.io/cli-utils/pkg/apply/event"
	"sigs.k8s.io/cli-utils/pkg/apply/taskrunner"
	pollevent "sigs.k8s.io/cli-utils/pkg/kstatus/polling/event"
	"sigs.k8s.io/cli-utils/pkg/kstatus/status"
	"sigs.k8s.io/cli-utils/pkg/object"
	"verif/harness/internal/proto"
)

type rcEv struct {
	Obj  int    `json:"obj"`  // index into the id universe
	St   string `json:"st"`   // kstatus
	Msg  string `json:"msg"`  // status message
	Body bool   `json:"body"` // the event carries the object
	Gen  int64  `json:"gen"`
	UID  string `json:"uid"`
	Mark string `json:"mark"` // content of a field that is neither status nor generation (data.mark)
	// the report carries an error (what a status reader hands on when listing the generated objects or computing the status
	// failed, usually with status Unknown): an observation like any other
	Err bool `json:"err,omitempty"`
}

type rcIn struct {
	N      int    `json:"n"`      // objects 0..n-1 exist; the task is for objects 0..task-1
	Task   int    `json:"task"`   //
	Emit   bool   `json:"emit"`   // EmitStatusEvents
	Events []rcEv `json:"events"` //
}

func rcID(i int) object.ObjMetadata {
	return fromJid(jid{"ns", fmt.Sprintf("o%d", i), "", "ConfigMap"})
}

type heldTask struct {
	ids     object.ObjMetadataSet
	mu      sync.Mutex
	updates []int
	idx     map[object.ObjMetadata]int
	release chan struct{}
	started chan struct{}
}

func (t *heldTask) Name() string                       { return "held-0" }
func (t *heldTask) Action() event.ResourceAction       { return event.WaitAction }
func (t *heldTask) Identifiers() object.ObjMetadataSet { return t.ids }
func (t *heldTask) Cancel(*taskrunner.TaskContext)     {}
func (t *heldTask) Start(tc *taskrunner.TaskContext) {
	close(t.started)
	go func() {
		<-t.release
		tc.TaskChannel() <- taskrunner.TaskResult{}
	}()
}
func (t *heldTask) StatusUpdate(_ *taskrunner.TaskContext, id object.ObjMetadata) {
	t.mu.Lock()
	t.updates = append(t.updates, t.idx[id])
	t.mu.Unlock()
}

func runRunnerCache(in rcIn) (out map[string]any) {
	defer func() {
		if r := recover(); r != nil {
			out = map[string]any{"panic": fmt.Sprint(r)}
		}
	}()
	ids := object.ObjMetadataSet{}
	idx := map[object.ObjMetadata]int{}
	for i := 0; i < in.N; i++ {
		ids = append(ids, rcID(i))
		idx[rcID(i)] = i
	}
	evCh := make(chan event.Event)
	rc := cache.NewResourceCacheMap()
	tc := taskrunner.NewTaskContext(evCh, rc)
	task := &heldTask{ids: append(object.ObjMetadataSet{}, ids[:in.Task]...), idx: idx, release: make(chan struct{}), started: make(chan struct{})}
	sw := newScriptedWatcher()
	runner := taskrunner.NewTaskStatusRunner(ids, sw)
	q := make(chan taskrunner.Task, 1)
	q <- task // (left open, as solver.Build leaves it: the runner takes an empty queue, not a closed one, as the end)
	ctx, cancel := context.WithCancel(context.Background())
	defer cancel()
	stop := make(chan struct{})
	defer close(stop)
	forwarded := []int{}
	var fmu sync.Mutex
	readerDone := make(chan struct{})
	go func() {
		defer close(readerDone)
		for e := range evCh {
			if e.Type == event.StatusType && e.StatusEvent.Identifier != fenceID {
				fmu.Lock()
				forwarded = append(forwarded, idx[e.StatusEvent.Identifier])
				fmu.Unlock()
			}
		}
	}()
	runDone := make(chan error, 1)
	go func() { runDone <- runner.Run(ctx, tc, q, taskrunner.Options{EmitStatusEvents: in.Emit}); close(evCh) }()
	close(sw.syncGate)
	hang := false
	select { // events are fed while the task is the runner's current task
	case <-task.started:
	case <-time.After(5 * time.Second):
		hang = true
	}
	for _, e := range in.Events {
		id := rcID(e.Obj)
		rs := &pollevent.ResourceStatus{Identifier: id, Status: status.Status(e.St), Message: e.Msg}
		if e.Body {
			u := &unstructured.Unstructured{Object: map[string]any{"apiVersion": "v1", "kind": "ConfigMap",
				"metadata": map[string]any{"name": id.Name, "namespace": id.Namespace}, "data": map[string]any{"mark": e.Mark}}}
			u.SetGeneration(e.Gen)
			u.SetUID(types.UID(e.UID))
			rs.Resource = u
		}
		if e.Err {
			rs.Error = errors.New("listing the generated objects failed")
		}
		if !sw.send(pollevent.Event{Type: pollevent.ResourceUpdateEvent, Resource: rs}, stop) || !sw.fence(stop) {
			hang = true
			break
		}
	}
	close(task.release)
	select {
	case <-runDone:
	case <-time.After(5 * time.Second):
		hang = true
		cancel()
	}
	<-readerDone
	cacheOut := make([]any, in.N)
	for i := 0; i < in.N; i++ {
		c := rc.Get(rcID(i))
		if c.Resource == nil {
			cacheOut[i] = []any{c.Status.String(), c.StatusMessage, false, 0, "", ""}
		} else {
			mark, _, _ := unstructured.NestedString(c.Resource.Object, "data", "mark")
			cacheOut[i] = []any{c.Status.String(), c.StatusMessage, true, c.Resource.GetGeneration(), string(c.Resource.GetUID()), mark}
		}
	}
	task.mu.Lock()
	ups := append([]int{}, task.updates...)
	task.mu.Unlock()
	return map[string]any{"cache": cacheOut, "updates": ups, "forwarded": forwarded, "hang": hang, "panic": nil}
}

func genRunnerCache(out *proto.Out, rng *proto.Rng, tier string) {
	n := 1500
	if tier == "thorough" {
		n = 15000
	}
	sts := []string{"InProgress", "Failed", "Current", "Terminating", "NotFound", "Unknown"}
	cases := make([]rcIn, n)
	for c := range cases {
		in := rcIn{N: 1 + rng.Intn(3), Emit: rng.Chance(1, 2)}
		in.Task = rng.Intn(in.N + 1)
		for k := rng.Intn(7); k > 0; k-- {
			e := rcEv{Obj: rng.Intn(in.N), St: proto.Pick(rng, sts), Msg: proto.Pick(rng, []string{"", "", "m"}),
				Body: rng.Chance(4, 5), Gen: int64(1 + rng.Intn(2)), UID: proto.Pick(rng, []string{"u1", "u1", "u2"}), Mark: proto.Pick(rng, []string{"a", "b", "c"})}
			// often: the same object again with only a non-generation field changed
			if len(in.Events) > 0 && rng.Chance(1, 2) {
				p := in.Events[rng.Intn(len(in.Events))]
				e = p
				e.Mark = proto.Pick(rng, []string{"a", "b", "c", "d"})
			}
			if rng.Chance(1, 5) {
				e.Err = true
				if rng.Chance(2, 3) {
					e.St = "Unknown"
				}
			}
			in.Events = append(in.Events, e)
		}
		if in.Events == nil {
			in.Events = []rcEv{}
		}
		cases[c] = in
	}
	res := make([]map[string]any, n)
	var wg sync.WaitGroup
	sem := make(chan struct{}, 16)
	for i := range cases {
		wg.Add(1)
		sem <- struct{}{}
		go func(i int) { defer wg.Done(); defer func() { <-sem }(); res[i] = runRunnerCache(cases[i]) }(i)
	}
	wg.Wait()
	for i := range cases {
		out.Emit("runnercache", cases[i], res[i])
	}
}

func init() {
	register("runnercache", domain{gen: genRunnerCache, run: func(raw json.RawMessage) (any, error) {
		var in rcIn
		if err := json.Unmarshal(raw, &in); err != nil {
			return nil, err
		}
		return runRunnerCache(in), nil
	}})
}
