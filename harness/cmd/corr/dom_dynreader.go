package main

// Domain dynreader (C17): the REAL clusterreader.DynamicClusterReader (the reader of the status watcher) over client-go's
// fake dynamic client and a scripted RESTMapper. Every read goes to the cluster: Get / ListNamespaceScoped /
// ListClusterScoped must answer the CURRENT content. Script: put / del (change the cluster), fail (make GET or LIST requests
// of one resource fail from now on, or stop failing), get / listns / listcluster. Output as in the domain cachereader; list
// items are sorted by (namespace, name) because the fake's object tracker hands them out in map order.

import (
	"context"
	"encoding/json"
	"fmt"
	"sort"
	"strings"

	metav1 "k8s.io/apimachinery/pkg/apis/meta/v1"
	"k8s.io/apimachinery/pkg/apis/meta/v1/unstructured"
	"k8s.io/apimachinery/pkg/runtime"
	"k8s.io/apimachinery/pkg/runtime/schema"
	dynamicfake "k8s.io/client-go/dynamic/fake"
	clienttesting "k8s.io/client-go/testing"
	"sigs.k8s.io/cli-utils/pkg/kstatus/polling/clusterreader"
	"sigs.k8s.io/controller-runtime/pkg/client"
	"verif/harness/internal/proto"
)

type drOp struct {
	Op   string `json:"op"` // put | del | fail | get | listns | listcluster
	Obj  *crObj `json:"obj,omitempty"`
	G    string `json:"g"`
	K    string `json:"k"`
	NS   string `json:"ns"`
	N    string `json:"n"`
	Sel  *crSel `json:"sel,omitempty"`
	Verb string `json:"verb,omitempty"` // fail: get | list
	E    string `json:"e,omitempty"`    // fail: other | notfound | canceled | none
	Text string `json:"text,omitempty"`
}

type drIn struct {
	Scopes [][3]string `json:"scopes"`
	Ops    []drOp      `json:"ops"`
}

func drGVR(g, k string) schema.GroupVersionResource {
	return schema.GroupVersionResource{Group: g, Version: "v1", Resource: strings.ToLower(k) + "s"}
}

func runDynReader(in drIn) (out map[string]any) {
	res := []map[string]any{}
	defer func() {
		if r := recover(); r != nil {
			out = map[string]any{"res": res, "panic": fmt.Sprint(r)}
		}
	}()
	mp := &crMapper{}
	mp.set(in.Scopes)
	listKinds := map[schema.GroupVersionResource]string{}
	for _, gk := range crGKs {
		listKinds[drGVR(gk.g, gk.k)] = gk.k + "List"
	}
	for _, op := range in.Ops {
		if op.K != "" {
			listKinds[drGVR(op.G, op.K)] = op.K + "List"
		}
		if op.Obj != nil {
			listKinds[drGVR(op.Obj.G, op.Obj.K)] = op.Obj.K + "List"
		}
	}
	dc := dynamicfake.NewSimpleDynamicClientWithCustomListKinds(runtime.NewScheme(), listKinds)
	type fkey struct{ verb, g, res string }
	fails := map[fkey]error{}
	dc.PrependReactor("*", "*", func(a clienttesting.Action) (bool, runtime.Object, error) {
		gvr := a.GetResource()
		if err, ok := fails[fkey{a.GetVerb(), gvr.Group, gvr.Resource}]; ok {
			return true, nil, err
		}
		return false, nil, nil
	})
	rd := &clusterreader.DynamicClusterReader{DynamicClient: dc, Mapper: mp}
	ctx := context.Background()
	for i := range in.Ops {
		op := &in.Ops[i]
		switch op.Op {
		case "put":
			u := crToUnstructured(*op.Obj)
			gvr := drGVR(op.Obj.G, op.Obj.K)
			if _, err := dc.Tracker().Get(gvr, op.Obj.NS, op.Obj.N); err == nil {
				err = dc.Tracker().Update(gvr, &u, op.Obj.NS)
				res = append(res, map[string]any{"r": crClass(err)})
			} else {
				err = dc.Tracker().Create(gvr, &u, op.Obj.NS)
				res = append(res, map[string]any{"r": crClass(err)})
			}
		case "del":
			_ = dc.Tracker().Delete(drGVR(op.G, op.K), op.NS, op.N)
			res = append(res, map[string]any{"r": "ok"})
		case "fail":
			k := fkey{op.Verb, op.G, drGVR(op.G, op.K).Resource}
			switch op.E {
			case "none":
				delete(fails, k)
			case "notfound":
				fails[k] = &crErr{text: op.Text, reason: metav1.StatusReasonNotFound}
			case "canceled":
				fails[k] = fmt.Errorf("request failed: %w", context.Canceled)
			default:
				fails[k] = &crErr{text: op.Text, reason: metav1.StatusReasonInternalError}
			}
			res = append(res, map[string]any{"r": "ok"})
		case "get":
			obj := &unstructured.Unstructured{Object: map[string]any{}}
			obj.SetGroupVersionKind(schema.GroupVersionKind{Group: op.G, Version: "v1", Kind: op.K})
			err := rd.Get(ctx, client.ObjectKey{Namespace: op.NS, Name: op.N}, obj)
			if err != nil {
				res = append(res, map[string]any{"r": crClass(err)})
				break
			}
			ls := [][2]string{}
			for k, v := range obj.GetLabels() {
				ls = append(ls, [2]string{k, v})
			}
			sort.Slice(ls, func(a, b int) bool { return ls[a][0] < ls[b][0] })
			res = append(res, map[string]any{"r": "found", "ns": obj.GetNamespace(), "n": obj.GetName(), "gen": obj.GetGeneration(), "l": ls})
		case "listns", "listcluster":
			sel, err := crSelector(op.Sel)
			if err != nil {
				res = append(res, map[string]any{"r": "bad-selector"})
				break
			}
			list := &unstructured.UnstructuredList{}
			list.SetGroupVersionKind(schema.GroupVersionKind{Group: op.G, Version: "v1", Kind: op.K})
			list.Items = []unstructured.Unstructured{crToUnstructured(crObj{G: op.G, K: op.K, NS: "stale", N: "stale"})}
			if op.Op == "listns" {
				err = rd.ListNamespaceScoped(ctx, list, op.NS, sel)
			} else {
				err = rd.ListClusterScoped(ctx, list, sel)
			}
			if err != nil {
				res = append(res, map[string]any{"r": crClass(err)})
				break
			}
			type it struct {
				ns, n string
				gen   int64
			}
			its := []it{}
			for i := range list.Items {
				u := &list.Items[i]
				its = append(its, it{u.GetNamespace(), u.GetName(), u.GetGeneration()})
			}
			sort.Slice(its, func(a, b int) bool {
				if its[a].ns != its[b].ns {
					return its[a].ns < its[b].ns
				}
				return its[a].n < its[b].n
			})
			items := [][3]any{}
			for _, x := range its {
				items = append(items, [3]any{x.ns, x.n, x.gen})
			}
			res = append(res, map[string]any{"r": "items", "items": items})
		default:
			res = append(res, map[string]any{"r": "bad-op"})
		}
	}
	if err := rd.Sync(ctx); err != nil {
		res = append(res, map[string]any{"r": "sync-failed"})
	}
	return map[string]any{"res": res, "panic": nil}
}

func genDynReader(out *proto.Out, rng *proto.Rng, tier string) {
	n := 3000
	if tier == "thorough" {
		n = 60000
	}
	for i := 0; i < n; i++ {
		scopes := crPerturbScopes(rng, crDefaultScopes())
		in := drIn{Scopes: scopes, Ops: []drOp{}}
		gks := []crGK{proto.Pick(rng, crGKs), proto.Pick(rng, crGKs)}
		var cluster []crObj
		nOps := 3 + rng.Intn(12)
		for j := 0; j < nOps; j++ {
			gk := proto.Pick(rng, gks)
			ns := proto.Pick(rng, crNSs)
			if gk == crNsK {
				ns = ""
			}
			switch v := rng.Intn(20); {
			case v < 7:
				o := crObj{G: gk.g, K: gk.k, NS: ns, N: proto.Pick(rng, crName), Gen: int64(1 + rng.Intn(3)), L: crRandLabels(rng)}
				in.Ops = append(in.Ops, drOp{Op: "put", Obj: &o})
				keep := cluster[:0:0]
				for _, c := range cluster {
					if !(c.G == o.G && c.K == o.K && c.NS == o.NS && c.N == o.N) {
						keep = append(keep, c)
					}
				}
				cluster = append(keep, o)
			case v < 9:
				name := proto.Pick(rng, crName)
				if len(cluster) > 0 && rng.Chance(2, 3) {
					c := proto.Pick(rng, cluster)
					gk, ns, name = crGK{c.G, c.K}, c.NS, c.N
				}
				in.Ops = append(in.Ops, drOp{Op: "del", G: gk.g, K: gk.k, NS: ns, N: name})
				keep := cluster[:0:0]
				for _, c := range cluster {
					if !(c.G == gk.g && c.K == gk.k && c.NS == ns && c.N == name) {
						keep = append(keep, c)
					}
				}
				cluster = keep
			case v < 10:
				in.Ops = append(in.Ops, drOp{Op: "fail", G: gk.g, K: gk.k, Verb: proto.Pick(rng, []string{"get", "list"}),
					E: proto.Pick(rng, []string{"other", "notfound", "canceled", "none", "none"}), Text: fmt.Sprintf("req-%d", j)})
			default:
				if len(cluster) > 0 && rng.Chance(1, 2) { // aim at something that exists
					c := proto.Pick(rng, cluster)
					gk, ns = crGK{c.G, c.K}, c.NS
				}
				pairs := []crPair{{gk, ns}}
				r := crRandRead(rng, pairs, cluster)
				if r.Op == "listcluster" {
					r.G, r.K = gk.g, gk.k
				}
				in.Ops = append(in.Ops, drOp{Op: r.Op, G: r.G, K: r.K, NS: r.NS, N: r.N, Sel: r.Sel})
			}
		}
		out.Emit("dynreader", in, runDynReader(in))
	}
}

func init() {
	register("dynreader", domain{gen: genDynReader, run: func(raw json.RawMessage) (any, error) {
		var in drIn
		if err := json.Unmarshal(raw, &in); err != nil {
			return nil, err
		}
		return runDynReader(in), nil
	}})
}
