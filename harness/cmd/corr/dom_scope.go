package main

import (
	"encoding/json"
	"errors"
	"fmt"

	"k8s.io/apimachinery/pkg/api/meta"
	"k8s.io/apimachinery/pkg/apis/meta/v1/unstructured"
	"k8s.io/apimachinery/pkg/runtime/schema"
	"k8s.io/apimachinery/pkg/util/validation/field"
	"sigs.k8s.io/cli-utils/pkg/multierror"
	"sigs.k8s.io/cli-utils/pkg/object"
	"sigs.k8s.io/cli-utils/pkg/object/validation"
	"verif/harness/internal/proto"
)

// domain scope: the real object.LookupResourceScope and validation.Validator.Validate on a small object set.
//   mapper: rows [group, kind, version, answer]; answer ns | root | nomatch | nomatch-res | nomatch-wrapped | err; first row
//           with the (group, kind, version) asked for wins, nothing listed: NoKindMatchError.
//   real:   build a real meta.DefaultRESTMapper from the ns / root rows instead of the stub (other rows: not registered)
//   objs:   {g, v, k, name, ns, spec}: apiVersion = g/v (v when g == ""), kind, metadata.name / namespace (set when non-empty),
//           spec = [] (no spec key) or [value].  objs[0] is the object under test of the direct LookupResourceScope call, its
//           crds argument are the objects of the set that object.IsCRD accepts (what the unexported findCRDs computes).
// output: scope  = namespaced | root | unknown-type | other:<Type>:<field path> | other:mapper  (LookupResourceScope on objs[0])
//         errs   = Collector.Errors after Validate(objs), in order: [id as [ns,name,group,kind], [error classes of the cause]]
//         invalid = indices i with Collector.InvalidIds.Contains(id of objs[i])
type scopeObj struct {
	G    string `json:"g"`
	V    string `json:"v"`
	K    string `json:"k"`
	Name string `json:"name"`
	Ns   string `json:"ns"`
	Spec []any  `json:"spec"`
}

type scopeIn struct {
	Mapper [][4]string `json:"mapper"`
	Real   bool        `json:"real,omitempty"`
	Objs   []scopeObj  `json:"objs"`
}

var errScopeMapper = errors.New("verif: mapper failure")

// scopeMapper: a RESTMapper whose RESTMapping answers from the table; every other method is left nil (never called by the
// code under test; a call panics and is reported).
type scopeMapper struct {
	meta.RESTMapper
	table [][4]string
}

func (m scopeMapper) RESTMapping(gk schema.GroupKind, versions ...string) (*meta.RESTMapping, error) {
	v := ""
	if len(versions) > 0 {
		v = versions[0]
	}
	ans := "nomatch"
	for _, r := range m.table {
		if r[0] == gk.Group && r[1] == gk.Kind && r[2] == v {
			ans = r[3]
			break
		}
	}
	gvk := gk.WithVersion(v)
	switch ans {
	case "ns":
		return &meta.RESTMapping{Resource: gvk.GroupVersion().WithResource("things"), GroupVersionKind: gvk, Scope: meta.RESTScopeNamespace}, nil
	case "root":
		return &meta.RESTMapping{Resource: gvk.GroupVersion().WithResource("things"), GroupVersionKind: gvk, Scope: meta.RESTScopeRoot}, nil
	case "nomatch-res":
		return nil, &meta.NoResourceMatchError{PartialResource: gvk.GroupVersion().WithResource("things")}
	case "nomatch-wrapped":
		return nil, fmt.Errorf("discovery: %w", &meta.NoKindMatchError{GroupKind: gk, SearchedVersions: versions})
	case "err":
		return nil, errScopeMapper
	}
	return nil, &meta.NoKindMatchError{GroupKind: gk, SearchedVersions: versions}
}

func scopeRealMapper(table [][4]string) meta.RESTMapper {
	var gvs []schema.GroupVersion
	for _, r := range table {
		if r[3] == "ns" || r[3] == "root" {
			gvs = append(gvs, schema.GroupVersion{Group: r[0], Version: r[2]})
		}
	}
	m := meta.NewDefaultRESTMapper(gvs)
	seen := map[[3]string]bool{}
	for _, r := range table {
		key := [3]string{r[0], r[1], r[2]}
		if seen[key] {
			continue
		}
		seen[key] = true
		gvk := schema.GroupVersionKind{Group: r[0], Kind: r[1], Version: r[2]}
		switch r[3] {
		case "ns":
			m.Add(gvk, meta.RESTScopeNamespace)
		case "root":
			m.Add(gvk, meta.RESTScopeRoot)
		}
	}
	return m
}

func scopeUnstructured(o scopeObj) *unstructured.Unstructured {
	av := o.V
	if o.G != "" {
		av = o.G + "/" + o.V
	}
	md := map[string]any{}
	if o.Name != "" {
		md["name"] = o.Name
	}
	if o.Ns != "" {
		md["namespace"] = o.Ns
	}
	m := map[string]any{"apiVersion": av, "kind": o.K, "metadata": md}
	if len(o.Spec) > 0 {
		m["spec"] = o.Spec[0]
	}
	return &unstructured.Unstructured{Object: m}
}

var fieldTypeName = map[field.ErrorType]string{field.ErrorTypeRequired: "Required", field.ErrorTypeInvalid: "Invalid", field.ErrorTypeNotFound: "NotFound"}

// scopeErrClass: by error type and field path only (gvk: the type an UnknownTypeError must name, when known)
func scopeErrClass(err error, gvk *schema.GroupVersionKind) string {
	var ut *object.UnknownTypeError
	var fe *field.Error
	switch {
	case errors.As(err, &ut):
		if gvk != nil && ut.GroupVersionKind != *gvk {
			return "unknown-type:other-gvk"
		}
		return "unknown-type"
	case errors.As(err, &fe):
		t, ok := fieldTypeName[fe.Type]
		if !ok {
			t = string(fe.Type)
		}
		switch t + ":" + fe.Field {
		case "Required:kind":
			return "kind-required"
		case "Required:metadata.name":
			return "name-required"
		case "Required:metadata.namespace":
			return "namespace-required"
		case "Invalid:metadata.namespace":
			return "namespace-must-be-empty"
		}
		return "other:" + t + ":" + fe.Field
	case errors.Is(err, errScopeMapper):
		return "other:mapper"
	}
	return "other:?"
}

func runScope(in scopeIn) (out map[string]any) {
	defer func() {
		if r := recover(); r != nil {
			out = map[string]any{"panic": fmt.Sprint(r)}
		}
	}()
	var mapper meta.RESTMapper = scopeMapper{table: in.Mapper}
	if in.Real {
		mapper = scopeRealMapper(in.Mapper)
	}
	objs := make([]*unstructured.Unstructured, len(in.Objs))
	var crds []*unstructured.Unstructured
	for i, o := range in.Objs {
		objs[i] = scopeUnstructured(o)
		if object.IsCRD(objs[i]) {
			crds = append(crds, objs[i])
		}
	}
	// 1. the direct lookup for the object under test
	scope := "nil"
	sc, err := object.LookupResourceScope(objs[0], crds, mapper)
	switch {
	case err != nil:
		gvk := objs[0].GroupVersionKind()
		scope = scopeErrClass(err, &gvk)
	case sc == meta.RESTScopeNamespace:
		scope = "namespaced"
	case sc == meta.RESTScopeRoot:
		scope = "root"
	}
	// 2. the validator on the whole set (fresh objects: nothing is shared with the first call)
	for i, o := range in.Objs {
		objs[i] = scopeUnstructured(o)
	}
	c := &validation.Collector{}
	v := &validation.Validator{Mapper: mapper, Collector: c}
	v.Validate(objs)
	errs := []any{}
	for _, e := range c.Errors {
		var ve *validation.Error
		if !errors.As(e, &ve) {
			errs = append(errs, []any{nil, []string{"not-a-validation-error"}})
			continue
		}
		ids := ve.Identifiers()
		var idj any
		if len(ids) == 1 {
			idj = toJid(ids[0])
		} else {
			idj = toJids(ids)
		}
		classes := []string{}
		for _, cause := range multierror.Unwrap(ve.Unwrap()) {
			classes = append(classes, scopeErrClass(cause, nil))
		}
		errs = append(errs, []any{idj, classes})
	}
	invalid := []int{}
	for i, u := range objs {
		if c.InvalidIds.Contains(object.UnstructuredToObjMetadata(u)) {
			invalid = append(invalid, i)
		}
	}
	return map[string]any{"scope": scope, "errs": errs, "invalid": invalid}
}

// ---- generator ----

type scopeAbsent struct{}

var absent = scopeAbsent{}

func scopeMap(kv ...any) map[string]any {
	m := map[string]any{}
	for i := 0; i+1 < len(kv); i += 2 {
		if _, ok := kv[i+1].(scopeAbsent); ok {
			continue
		}
		m[kv[i].(string)] = kv[i+1]
	}
	return m
}

const (
	crdGroup = "apiextensions.k8s.io"
	crdKind  = "CustomResourceDefinition"
)

func scopeCRD(name string, spec ...any) scopeObj {
	if spec == nil {
		spec = []any{}
	}
	return scopeObj{G: crdGroup, V: "v1", K: crdKind, Name: name, Spec: spec}
}

func vn(name any) any { return scopeMap("name", name) }

var (
	scopeGroupVals = []any{absent, nil, "", 5, "ex.io", "other.io"}
	scopeNamesVals = []any{absent, nil, "x", scopeMap(), scopeMap("kind", nil), scopeMap("kind", ""), scopeMap("kind", 7),
		scopeMap("kind", "Foo"), scopeMap("kind", "Bar")}
	scopeItemVals  = []any{nil, "s", scopeMap(), vn(nil), vn(3), vn("v1"), vn("v2")}
	scopeScopeVals = []any{absent, nil, "Namespaced", "Cluster", "Other", 5}
)

func scopeVersionVals() []any {
	vals := []any{absent, nil, "x", []any{}}
	for _, a := range scopeItemVals {
		vals = append(vals, []any{a})
	}
	for _, a := range scopeItemVals {
		for _, b := range []any{vn("v1"), vn("v2"), nil} {
			vals = append(vals, []any{a, b})
		}
	}
	return vals
}

func scopeSpec(group, names, versions, scope any) any {
	return scopeMap("group", group, "names", names, "versions", versions, "scope", scope)
}

func goodSpec(group, kind string, versions []string, scope any) any {
	vs := []any{}
	for _, v := range versions {
		vs = append(vs, vn(v))
	}
	return scopeSpec(group, scopeMap("kind", kind), vs, scope)
}

// representative CRD specs (each wrapped as the spec field: [] = no spec key)
func scopeReprSpecs() [][]any {
	one := func(x any) []any { return []any{x} }
	foo := scopeMap("kind", "Foo")
	v1 := []any{vn("v1")}
	return [][]any{
		one(goodSpec("ex.io", "Foo", []string{"v1"}, "Namespaced")),
		one(goodSpec("ex.io", "Foo", []string{"v1"}, "Cluster")),
		one(goodSpec("ex.io", "Foo", []string{"v2"}, "Namespaced")),
		one(goodSpec("ex.io", "Foo", []string{"v2", "v1"}, "Cluster")),
		one(goodSpec("other.io", "Foo", []string{"v1"}, "Namespaced")),
		one(goodSpec("ex.io", "Bar", []string{"v1"}, "Cluster")),
		one(scopeSpec("other.io", foo, absent, absent)), // non-matching: never read beyond group/kind
		{}, one(nil), one("str"), one([]any{}),
		one(scopeSpec(absent, foo, v1, "Namespaced")),
		one(scopeSpec("", foo, v1, "Namespaced")),
		one(scopeSpec(5, foo, v1, "Namespaced")),
		one(scopeSpec(nil, foo, v1, "Namespaced")),
		one(scopeSpec("ex.io", absent, v1, "Namespaced")),
		one(scopeSpec("ex.io", "x", v1, "Namespaced")),
		one(scopeSpec("ex.io", scopeMap(), v1, "Namespaced")),
		one(scopeSpec("ex.io", scopeMap("kind", ""), v1, "Namespaced")),
		one(scopeSpec("ex.io", scopeMap("kind", 7), v1, "Namespaced")),
		one(scopeSpec("ex.io", foo, absent, "Namespaced")),
		one(scopeSpec("ex.io", foo, "x", "Namespaced")),
		one(scopeSpec("ex.io", foo, []any{}, "Namespaced")),
		one(scopeSpec("ex.io", foo, []any{nil, vn("v1")}, "Namespaced")),
		one(scopeSpec("ex.io", foo, []any{vn("v1"), nil}, "Cluster")),
		one(scopeSpec("ex.io", foo, []any{scopeMap(), vn("v1")}, "Namespaced")),
		one(scopeSpec("ex.io", foo, []any{vn(3), vn("v1")}, "Namespaced")),
		one(scopeSpec("ex.io", foo, v1, "Other")),
		one(scopeSpec("ex.io", foo, v1, absent)),
		one(scopeSpec("ex.io", foo, v1, 5)),
	}
}

var scopeAnswers = []string{"nomatch", "ns", "root", "err", "nomatch-res", "nomatch-wrapped"}

func crdRow(ans string) [4]string { return [4]string{crdGroup, crdKind, "v1", ans} }

func genScopeRandom(rng *proto.Rng, verVals []any) scopeIn {
	in := scopeIn{}
	obj := scopeObj{G: proto.Pick(rng, []string{"ex.io", "ex.io", "ex.io", "", "other.io"}), V: proto.Pick(rng, []string{"v1", "v1", "v1", "v2", ""}),
		K: proto.Pick(rng, []string{"Foo", "Foo", "Foo", "Foo", "Bar", ""}), Name: proto.Pick(rng, []string{"a", "a", "a", ""}),
		Ns: proto.Pick(rng, []string{"ns1", ""}), Spec: []any{}}
	if rng.Chance(1, 25) {
		// the object under test is itself a CRD (it is then also one of the crds it is looked up in)
		obj = scopeObj{G: crdGroup, V: "v1", K: crdKind, Name: proto.Pick(rng, []string{"foos.ex.io", ""}), Ns: proto.Pick(rng, []string{"", "", "ns1"}),
			Spec: []any{goodSpec(crdGroup, crdKind, []string{"v1"}, proto.Pick(rng, []any{"Cluster", "Namespaced"}))}}
	}
	in.Objs = append(in.Objs, obj)
	n := rng.Intn(4)
	repr := scopeReprSpecs()
	wfOnly := rng.Chance(2, 5) // only well-formed CRDs: which of several CRDs for one type decides, versions, scopes
	for i := 0; i < n; i++ {
		var spec []any
		kind := rng.Intn(4)
		if wfOnly {
			kind = 1
		}
		switch kind {
		case 0:
			spec = proto.Pick(rng, repr)
		case 1:
			spec = []any{goodSpec(proto.Pick(rng, []string{"ex.io", "ex.io", "other.io"}), proto.Pick(rng, []string{"Foo", "Foo", "Bar"}),
				proto.Pick(rng, [][]string{{"v1"}, {"v2"}, {"v1", "v2"}, {"v2", "v1"}, {"v3", "v2"}}), proto.Pick(rng, []any{"Namespaced", "Cluster"}))}
		default:
			spec = []any{scopeSpec(proto.Pick(rng, scopeGroupVals), proto.Pick(rng, scopeNamesVals), proto.Pick(rng, verVals), proto.Pick(rng, scopeScopeVals))}
		}
		c := scopeCRD(proto.Pick(rng, []string{"foos.ex.io", "foos.ex.io", "bars.ex.io", fmt.Sprintf("c%d", i), ""}), spec...)
		if rng.Chance(1, 10) {
			c.Ns = "ns1"
		}
		if rng.Chance(1, 12) {
			c.V = "v1beta1"
		}
		if rng.Chance(1, 15) {
			// looks like a CRD but is not one for object.IsCRD
			if rng.Bool() {
				c.G = "ex.io"
			} else {
				c.K = "Foo"
			}
		}
		in.Objs = append(in.Objs, c)
	}
	in.Real = rng.Chance(1, 6)
	answers := scopeAnswers
	if in.Real {
		answers = []string{"nomatch", "ns", "root"}
	}
	// mapper rows: the CRD type (usually cluster-scoped, as in a cluster), the object's type, sometimes a decoy row
	if !rng.Chance(1, 10) {
		a := "root"
		if rng.Chance(1, 8) {
			a = proto.Pick(rng, answers)
		}
		in.Mapper = append(in.Mapper, crdRow(a))
	}
	if rng.Chance(1, 3) {
		in.Mapper = append(in.Mapper, [4]string{obj.G, proto.Pick(rng, []string{"Foo", "Bar"}), proto.Pick(rng, []string{"v1", "v2", "v3"}), proto.Pick(rng, answers)})
	}
	if rng.Chance(1, 2) && !(in.Real && (obj.K == "" || obj.V == "")) {
		in.Mapper = append(in.Mapper, [4]string{obj.G, obj.K, obj.V, proto.Pick(rng, answers)})
	}
	if in.Real {
		// a real DefaultRESTMapper falls back to any registered version for an empty version and cannot hold a type twice
		// with different scopes: keep rows unique per (group, kind, version) and never ask it for an empty version
		uniq := [][4]string{}
		seen := map[[3]string]bool{}
		for _, r := range in.Mapper {
			k := [3]string{r[0], r[1], r[2]}
			if !seen[k] && r[1] != "" && r[2] != "" {
				seen[k] = true
				uniq = append(uniq, r)
			}
		}
		in.Mapper = uniq
		for i := range in.Objs {
			if in.Objs[i].V == "" {
				in.Objs[i].V = "v1"
			}
		}
	}
	if in.Mapper == nil {
		in.Mapper = [][4]string{}
	}
	return in
}

func init() {
	register("scope", domain{
		gen: func(out *proto.Out, rng *proto.Rng, tier string) {
			emit := func(in scopeIn) {
				if in.Mapper == nil {
					in.Mapper = [][4]string{}
				}
				out.Emit("scope", in, runScope(in))
			}
			verVals := scopeVersionVals()
			under := scopeObj{G: "ex.io", V: "v1", K: "Foo", Name: "a", Ns: "ns1", Spec: []any{}}
			// (a) one CRD, every combination of the field shapes, the mapper does not know the object's type
			for _, g := range scopeGroupVals {
				for _, nm := range scopeNamesVals {
					for _, vs := range verVals {
						for _, sc := range scopeScopeVals {
							emit(scopeIn{Mapper: [][4]string{crdRow("root")},
								Objs: []scopeObj{under, scopeCRD("foos.ex.io", scopeSpec(g, nm, vs, sc))}})
						}
					}
				}
			}
			// (b) every ordered pair of representative CRDs x mapper answer x namespace
			repr := scopeReprSpecs()
			for _, s1 := range repr {
				for _, s2 := range repr {
					for _, ans := range scopeAnswers {
						for _, ns := range []string{"", "ns1"} {
							u := under
							u.Ns = ns
							emit(scopeIn{Mapper: [][4]string{crdRow("root"), {u.G, u.K, u.V, ans}},
								Objs: []scopeObj{u, scopeCRD("c1", s1...), scopeCRD("c2", s2...)}})
						}
					}
				}
			}
			// (c) the object grid x mapper answer x a few CRD sets (incl. none)
			sets := [][]int{{}, {0}, {1}, {2}, {3}, {11}, {4, 0}, {7, 1}, {2, 1}}
			for _, g := range []string{"", "ex.io"} {
				for _, v := range []string{"v1", "v2", ""} {
					for _, k := range []string{"", "Foo"} {
						for _, name := range []string{"", "a"} {
							for _, ns := range []string{"", "ns1"} {
								for _, ans := range scopeAnswers {
									for _, set := range sets {
										in := scopeIn{Mapper: [][4]string{crdRow("root"), {g, k, v, ans}},
											Objs: []scopeObj{{G: g, V: v, K: k, Name: name, Ns: ns, Spec: []any{}}}}
										for j, si := range set {
											spec := repr[si]
											in.Objs = append(in.Objs, scopeCRD(fmt.Sprintf("c%d", j), spec...))
										}
										emit(in)
									}
								}
							}
						}
					}
				}
			}
			// (d) the CRD objects themselves: name / namespace / what the mapper says about the CRD type
			for _, ans := range scopeAnswers {
				for _, name := range []string{"", "foos.ex.io"} {
					for _, ns := range []string{"", "ns1"} {
						for _, si := range []int{0, 1, 7, 11} {
							c := scopeCRD(name, repr[si]...)
							c.Ns = ns
							emit(scopeIn{Mapper: [][4]string{crdRow(ans)}, Objs: []scopeObj{under, c}})
							emit(scopeIn{Mapper: [][4]string{crdRow(ans)}, Objs: []scopeObj{c, scopeCRD("other", repr[0]...)}})
						}
					}
				}
			}
			nRand := 16000
			if tier == "thorough" {
				nRand = 400000
			}
			for i := 0; i < nRand; i++ {
				emit(genScopeRandom(rng, verVals))
			}
		},
		run: func(raw json.RawMessage) (any, error) {
			var in scopeIn
			if err := json.Unmarshal(raw, &in); err != nil {
				return nil, err
			}
			if len(in.Objs) == 0 {
				return nil, fmt.Errorf("scope: no object")
			}
			return runScope(in), nil
		},
	})
}
