package main

// C16 — status watcher. Three domains:
//   funnel         random add/send/close/cancel programs over 1-4 producers against the REAL eventFunnel (reached through
//                  harness/overlay/c16_watcher_export.go), goroutines with seeded small delays; output = observed history +
//                  runtime flags. Cases run one at a time in child processes (`corr funnel-exec`): a panic inside one of the
//                  funnel's own goroutines cannot be recovered, so the parent reports a dead child as {"panic":true}.
//   watcher        the real DefaultStatusWatcher (or a directly configured ObjectStatusReporter) over dynamic/fake with a
//                  watchable tracker; scripted cluster mutations; only schedule-independent observables are reported.
//   watcher-fatal  LIST is Forbidden for 1-3 watched kinds; counts error events.

import (
	"errors"
	"bufio"
	"context"
	"encoding/json"
	"fmt"
	"io"
	metav1 "k8s.io/apimachinery/pkg/apis/meta/v1"
	utilruntime "k8s.io/apimachinery/pkg/util/runtime"
	"os"
	"os/exec"
	"runtime"
	"sort"
	"strconv"
	"strings"
	"sync"
	"sync/atomic"
	"time"

	apierrors "k8s.io/apimachinery/pkg/api/errors"
	"k8s.io/apimachinery/pkg/api/meta"
	"k8s.io/apimachinery/pkg/apis/meta/v1/unstructured"
	k8sruntime "k8s.io/apimachinery/pkg/runtime"
	"k8s.io/apimachinery/pkg/runtime/schema"
	"k8s.io/apimachinery/pkg/watch"
	"k8s.io/client-go/dynamic"
	dynamicfake "k8s.io/client-go/dynamic/fake"
	clienttesting "k8s.io/client-go/testing"
	"k8s.io/klog/v2"
	"sigs.k8s.io/cli-utils/pkg/kstatus/polling/clusterreader"
	"sigs.k8s.io/cli-utils/pkg/kstatus/polling/event"
	"sigs.k8s.io/cli-utils/pkg/kstatus/polling/statusreaders"
	"sigs.k8s.io/cli-utils/pkg/kstatus/status"
	"sigs.k8s.io/cli-utils/pkg/kstatus/watcher"
	"sigs.k8s.io/cli-utils/pkg/object"
	"verif/harness/internal/proto"
)

// ---------------------------------------------------------------------------------------------------------------------
// domain funnel

type fProd struct {
	Pre  int   `json:"pre"`  // µs before AddInputChannel
	Ev   []int `json:"ev"`   // events to send, in order
	Gaps []int `json:"gaps"` // µs before each send
	CGap int   `json:"cgap"` // µs before close
}

type funnelIn struct {
	Prods  []fProd `json:"prods"`
	Cancel int     `json:"cancel"` // µs before the context is cancelled
	CGap   int     `json:"cons"`   // µs the consumer waits before each receive
}

type funnelOut struct {
	Hist   [][]any `json:"hist"`
	Panic  bool    `json:"panic"`
	Closed bool    `json:"closed"` // output channel closed (and Done closed) within the timeout
	Stuck  bool    `json:"stuck"`  // some producer goroutine of the harness never finished (blocked add/send)
	Leak   int     `json:"leak"`   // goroutines left over after settling
}

func usleep(us int) {
	if us > 0 {
		time.Sleep(time.Duration(us) * time.Microsecond)
	}
}

func runFunnelCase(in funnelIn) (out funnelOut) {
	var mu sync.Mutex
	hist := [][]any{}
	logf := func(e ...any) {
		mu.Lock()
		hist = append(hist, e)
		mu.Unlock()
	}
	runtime.GC()
	before := runtime.NumGoroutine()
	ctx, cancel := context.WithCancel(context.Background())
	f := watcher.VerifNewFunnel(ctx)
	var wg sync.WaitGroup
	for p := range in.Prods {
		wg.Add(1)
		go func(p int, pr fProd) {
			defer wg.Done()
			usleep(pr.Pre)
			ch := make(chan event.Event)
			logf("addCall", p)
			if err := f.Add(ch); err != nil {
				logf("addRej", p)
				return
			}
			logf("addOk", p)
			for k, e := range pr.Ev {
				if k < len(pr.Gaps) {
					usleep(pr.Gaps[k])
				}
				logf("send", p, e)
				ch <- event.Event{Type: event.ResourceUpdateEvent, Resource: &event.ResourceStatus{Message: strconv.Itoa(p) + "/" + strconv.Itoa(e)}}
			}
			usleep(pr.CGap)
			logf("closeIn", p)
			close(ch)
		}(p, in.Prods[p])
	}
	wg.Add(1)
	go func() {
		defer wg.Done()
		usleep(in.Cancel)
		logf("cancel")
		cancel()
	}()
	consDone := make(chan struct{})
	go func() {
		defer close(consDone)
		for {
			usleep(in.CGap)
			e, ok := <-f.Out()
			if !ok {
				logf("outClosed")
				return
			}
			pe := strings.SplitN(e.Resource.Message, "/", 2)
			p, _ := strconv.Atoi(pe[0])
			ev, _ := strconv.Atoi(pe[1])
			logf("out", p, ev)
		}
	}()
	timeout := time.After(3 * time.Second)
	select {
	case <-consDone:
		select {
		case <-f.Done():
			out.Closed = true
		case <-time.After(time.Second):
		}
	case <-timeout:
	}
	prodDone := make(chan struct{})
	go func() { wg.Wait(); close(prodDone) }()
	select {
	case <-prodDone:
	case <-time.After(time.Second):
		out.Stuck = true
	}
	cancel()
	// settle: the funnel goroutine and the drain goroutines must be gone
	deadline := time.Now().Add(time.Second)
	for {
		n := runtime.NumGoroutine()
		if n <= before || time.Now().After(deadline) {
			if n > before {
				out.Leak = n - before
			}
			break
		}
		time.Sleep(2 * time.Millisecond)
	}
	mu.Lock()
	out.Hist = append([][]any{}, hist...)
	mu.Unlock()
	return out
}

func genFunnelCase(rng *proto.Rng) funnelIn {
	n := 1 + rng.Intn(4)
	in := funnelIn{Prods: make([]fProd, n)}
	scale := []int{0, 0, 20, 100, 400}[rng.Intn(5)]
	d := func() int {
		if scale == 0 {
			return 0
		}
		return rng.Intn(scale)
	}
	for p := 0; p < n; p++ {
		k := rng.Intn(4)
		pr := fProd{Pre: d() * 2, Ev: make([]int, k), Gaps: make([]int, k), CGap: d()}
		for j := 0; j < k; j++ {
			pr.Ev[j] = 1 + rng.Intn(3) // repeats allowed: order/duplication must still be right
			pr.Gaps[j] = d()
		}
		in.Prods[p] = pr
	}
	in.Cancel = d() * 3
	if rng.Chance(1, 4) {
		in.Cancel = 0
	}
	if rng.Chance(1, 3) {
		in.CGap = d() / 2
	}
	return in
}

// funnelExecChild: read inputs (one JSON per line) on stdin, write outputs on stdout.
func funnelExecChild() {
	sc := bufio.NewScanner(os.Stdin)
	sc.Buffer(make([]byte, 1<<20), 1<<26)
	w := bufio.NewWriter(os.Stdout)
	for sc.Scan() {
		var in funnelIn
		if err := json.Unmarshal(sc.Bytes(), &in); err != nil {
			fmt.Fprintln(os.Stderr, "funnel-exec:", err)
			os.Exit(3)
		}
		o := runFunnelCase(in)
		b, _ := json.Marshal(o)
		w.Write(b)
		w.WriteByte('\n')
		w.Flush()
	}
}

type funnelChild struct {
	cmd *exec.Cmd
	in  io.WriteCloser
	out *bufio.Reader
}

func startFunnelChild() (*funnelChild, error) {
	exe, err := os.Executable()
	if err != nil {
		return nil, err
	}
	cmd := exec.Command(exe, "funnel-exec")
	cmd.Stderr = io.Discard // a crash is reported through the missing answer; VERIF_C16_CHILD_STDERR=1 shows the trace
	if os.Getenv("VERIF_C16_CHILD_STDERR") != "" {
		cmd.Stderr = os.Stderr
	}
	in, err := cmd.StdinPipe()
	if err != nil {
		return nil, err
	}
	outp, err := cmd.StdoutPipe()
	if err != nil {
		return nil, err
	}
	if err := cmd.Start(); err != nil {
		return nil, err
	}
	return &funnelChild{cmd: cmd, in: in, out: bufio.NewReaderSize(outp, 1<<20)}, nil
}

func (c *funnelChild) stop() {
	c.in.Close()
	c.cmd.Wait()
}

// exec one case in the child; a dead child is reported as a panic of the implementation.
func (c *funnelChild) exec(in funnelIn) (funnelOut, bool) {
	b, _ := json.Marshal(in)
	if _, err := c.in.Write(append(b, '\n')); err != nil {
		return funnelOut{Hist: [][]any{}, Panic: true}, false
	}
	line, err := c.out.ReadBytes('\n')
	if err != nil {
		return funnelOut{Hist: [][]any{}, Panic: true}, false
	}
	var o funnelOut
	if err := json.Unmarshal(line, &o); err != nil {
		return funnelOut{Hist: [][]any{}, Panic: true}, false
	}
	return o, true
}

// runFunnelShard executes the cases in order; after a few failing cases the rest of the shard is skipped (each failing
// case costs seconds of timeouts) — the returned slice is then shorter than the input.
func runFunnelShard(ins []funnelIn) []funnelOut {
	outs := make([]funnelOut, 0, len(ins))
	var c *funnelChild
	bad := 0
	for _, in := range ins {
		if bad >= 4 {
			break
		}
		if c == nil {
			var err error
			if c, err = startFunnelChild(); err != nil {
				fmt.Fprintln(os.Stderr, "cannot start funnel child:", err)
				os.Exit(2)
			}
		}
		o, alive := c.exec(in)
		outs = append(outs, o)
		if o.Panic || !o.Closed || o.Stuck || o.Leak != 0 {
			bad++
		}
		if !alive {
			c.cmd.Process.Kill()
			c.cmd.Wait()
			c = nil
		}
	}
	if c != nil {
		c.stop()
	}
	return outs
}

func genFunnel(out *proto.Out, rng *proto.Rng, tier string) {
	n := 5000
	if tier == "thorough" {
		n = 40000
	}
	ins := make([]funnelIn, n)
	for i := range ins {
		ins[i] = genFunnelCase(rng)
	}
	shards := 6
	outs := make([][]funnelOut, shards)
	var wg sync.WaitGroup
	for s := 0; s < shards; s++ {
		wg.Add(1)
		go func(s int) {
			defer wg.Done()
			var mine []funnelIn
			for i := s; i < n; i += shards {
				mine = append(mine, ins[i])
			}
			outs[s] = runFunnelShard(mine)
		}(s)
	}
	wg.Wait()
	for i := 0; i < n; i++ {
		if i/shards < len(outs[i%shards]) {
			out.Emit("funnel", ins[i], outs[i%shards][i/shards])
		}
	}
}

// ---------------------------------------------------------------------------------------------------------------------
// shared by watcher / watcher-fatal: a tiny cluster

type kindInfo struct {
	gvk        schema.GroupVersionKind
	resource   string
	namespaced bool
}

var (
	kPod     = kindInfo{schema.GroupVersionKind{Group: "", Version: "v1", Kind: "Pod"}, "pods", true}
	kCM      = kindInfo{schema.GroupVersionKind{Group: "", Version: "v1", Kind: "ConfigMap"}, "configmaps", true}
	kDep     = kindInfo{schema.GroupVersionKind{Group: "apps", Version: "v1", Kind: "Deployment"}, "deployments", true}
	kRS      = kindInfo{schema.GroupVersionKind{Group: "apps", Version: "v1", Kind: "ReplicaSet"}, "replicasets", true}
	kNS      = kindInfo{schema.GroupVersionKind{Group: "", Version: "v1", Kind: "Namespace"}, "namespaces", false}
	kCRD     = kindInfo{schema.GroupVersionKind{Group: "apiextensions.k8s.io", Version: "v1", Kind: "CustomResourceDefinition"}, "customresourcedefinitions", false}
	kWidget  = kindInfo{schema.GroupVersionKind{Group: "example.com", Version: "v1", Kind: "Widget"}, "widgets", true}
	kSvc     = kindInfo{schema.GroupVersionKind{Group: "", Version: "v1", Kind: "Service"}, "services", true}
	allKinds = []kindInfo{kPod, kCM, kDep, kRS, kNS, kCRD, kWidget, kSvc}
)

func (k kindInfo) gvr() schema.GroupVersionResource {
	return schema.GroupVersionResource{Group: k.gvk.Group, Version: k.gvk.Version, Resource: k.resource}
}

// swapMapper: a RESTMapper whose set of known kinds can change at run time (CRD installed / removed); thread-safe.
// Like client-go's DeferredDiscoveryRESTMapper over a caching discovery client it answers from a CACHED copy of what the API
// server serves: a kind installed later is found only after Reset() (which the library must call when it hears of a CRD).
type swapMapper struct {
	mu     sync.RWMutex
	live   *meta.DefaultRESTMapper // what the API server serves now
	inner  *meta.DefaultRESTMapper // the cached copy lookups are answered from
	resets int
}

func buildMapper(kinds []kindInfo) *meta.DefaultRESTMapper {
	var gvs []schema.GroupVersion
	for _, k := range kinds {
		gvs = append(gvs, k.gvk.GroupVersion())
	}
	m := meta.NewDefaultRESTMapper(gvs)
	for _, k := range kinds {
		scope := meta.RESTScopeNamespace
		if !k.namespaced {
			scope = meta.RESTScopeRoot
		}
		m.AddSpecific(k.gvk, k.gvr(), k.gvr(), scope)
	}
	return m
}

func newSwapMapper(kinds []kindInfo) *swapMapper {
	m := buildMapper(kinds)
	return &swapMapper{live: m, inner: m}
}
func (s *swapMapper) set(kinds []kindInfo) {
	m := buildMapper(kinds)
	s.mu.Lock()
	s.live = m
	s.mu.Unlock()
}
func (s *swapMapper) get() *meta.DefaultRESTMapper {
	s.mu.RLock()
	defer s.mu.RUnlock()
	return s.inner
}
// Reset takes a while (a real one re-runs discovery): whoever looks a kind up concurrently still sees the old cache
func (s *swapMapper) Reset() {
	time.Sleep(15 * time.Millisecond)
	s.mu.Lock()
	s.resets++
	s.inner = s.live
	s.mu.Unlock()
}
func (s *swapMapper) KindFor(r schema.GroupVersionResource) (schema.GroupVersionKind, error) {
	return s.get().KindFor(r)
}
func (s *swapMapper) KindsFor(r schema.GroupVersionResource) ([]schema.GroupVersionKind, error) {
	return s.get().KindsFor(r)
}
func (s *swapMapper) ResourceFor(r schema.GroupVersionResource) (schema.GroupVersionResource, error) {
	return s.get().ResourceFor(r)
}
func (s *swapMapper) ResourcesFor(r schema.GroupVersionResource) ([]schema.GroupVersionResource, error) {
	return s.get().ResourcesFor(r)
}
func (s *swapMapper) RESTMapping(gk schema.GroupKind, versions ...string) (*meta.RESTMapping, error) {
	return s.get().RESTMapping(gk, versions...)
}
func (s *swapMapper) RESTMappings(gk schema.GroupKind, versions ...string) ([]*meta.RESTMapping, error) {
	return s.get().RESTMappings(gk, versions...)
}
func (s *swapMapper) ResourceSingularizer(r string) (string, error) {
	return s.get().ResourceSingularizer(r)
}

type objSpec struct {
	kind kindInfo
	ns   string
	name string
}

func (o objSpec) id() object.ObjMetadata {
	return object.ObjMetadata{Namespace: o.ns, Name: o.name, GroupKind: o.kind.gvk.GroupKind()}
}

// the fixed universe of the watcher domain (index = object number in scripts)
var c16Objs = []objSpec{
	{kPod, "ns1", "a"},                // 0
	{kPod, "ns2", "b"},                // 1
	{kPod, "ns1", "u"},                // 2  never watched
	{kCM, "ns1", "c"},                 // 3
	{kCM, "ns2", "cu"},                // 4  never watched
	{kDep, "ns1", "d"},                // 5
	{kNS, "", "ns1"},                  // 6
	{kWidget, "ns1", "w"},             // 7
	{kCRD, "", "widgets.example.com"}, // 8
	{kWidget, "ns2", "w2"},            // 9  a second custom resource of the same kind, in another namespace
}

const (
	oPodA, oPodB, oPodU, oCmA, oCmU, oDepA, oNs1, oWidget, oCrd, oWidget2 = 0, 1, 2, 3, 4, 5, 6, 7, 8, 9
)

func nVersions(k kindInfo) int {
	switch k.gvk.Kind {
	case "Pod":
		return 4
	case "ConfigMap", "Namespace":
		return 2
	default:
		return 2
	}
}

func mkObj(o objSpec, ver int) *unstructured.Unstructured {
	u := &unstructured.Unstructured{Object: map[string]any{}}
	u.SetGroupVersionKind(o.kind.gvk)
	u.SetName(o.name)
	if o.ns != "" {
		u.SetNamespace(o.ns)
	}
	u.SetGeneration(1)
	set := func(v any, path ...string) { _ = unstructured.SetNestedField(u.Object, v, path...) }
	switch o.kind.gvk.Kind {
	case "Pod":
		set([]any{map[string]any{"name": "c", "image": "i"}}, "spec", "containers")
		switch ver {
		case 1:
			set("Running", "status", "phase")
			set([]any{map[string]any{"type": "Ready", "status": "True"}}, "status", "conditions")
		case 2:
			set("Failed", "status", "phase")
		case 3:
			set("Succeeded", "status", "phase")
		}
	case "ConfigMap":
		set(map[string]any{"k": strconv.Itoa(ver)}, "data")
	case "Namespace":
		set(map[string]any{"v": strconv.Itoa(ver)}, "metadata", "labels")
	case "Deployment":
		set(int64(1), "spec", "replicas")
		set(map[string]any{"matchLabels": map[string]any{"app": o.name}}, "spec", "selector")
		if ver == 1 {
			set(int64(1), "status", "observedGeneration")
			set(int64(1), "status", "replicas")
			set(int64(1), "status", "updatedReplicas")
			set(int64(1), "status", "readyReplicas")
			set(int64(1), "status", "availableReplicas")
			set([]any{
				map[string]any{"type": "Progressing", "status": "True", "reason": "NewReplicaSetAvailable"},
				map[string]any{"type": "Available", "status": "True"},
			}, "status", "conditions")
		}
	case "CustomResourceDefinition":
		set("example.com", "spec", "group")
		set("Widget", "spec", "names", "kind")
		if ver == 1 {
			set([]any{map[string]any{"type": "Established", "status": "True"}}, "status", "conditions")
		}
	case "Widget":
		if ver == 1 {
			set([]any{map[string]any{"type": "Ready", "status": "False", "reason": "r", "message": "m"}}, "status", "conditions")
		}
	case "Service":
		set("ClusterIP", "spec", "type")
	}
	return u
}

func libStatus(u *unstructured.Unstructured) string {
	res, err := status.Compute(u)
	if err != nil || res == nil {
		return "error"
	}
	return res.Status.String()
}

// cluster = dynamic fake + gate that makes "LIST then WATCH" atomic with respect to the harness's own mutations
// (the fake tracker has no resourceVersions: a change between an informer's LIST and its WATCH would be lost, which is a
// limitation of the fake, not behaviour of the code under test).
type cluster struct {
	client   *dynamicfake.FakeDynamicClient
	mapper   *swapMapper
	mu       sync.Mutex
	inflight int // LISTs whose WATCH has not been registered yet
	lists    int
	watches  int
	onList   func(gvr schema.GroupVersionResource, ns string, phase string) // informer LISTs only
	proxies  []*proxyWatch
}

// a panic inside an informer's event-handler goroutine would kill the whole harness process (it cannot be recovered from
// here); client-go's crash handler is told to log and carry on instead, so that the case in which it happened shows up as
// what the caller of the watcher sees: the event for that object never arrives
var c16HandlerPanics int64

func init() {
	utilruntime.ReallyCrash = false
	utilruntime.PanicHandlers = append(utilruntime.PanicHandlers, func(_ context.Context, _ interface{}) {
		atomic.AddInt64(&c16HandlerPanics, 1)
	})
}

// proxyWatch forwards the events of a tracker watch until it is stopped or broken.
type proxyWatch struct {
	inner   watch.Interface
	out     chan watch.Event
	stop    chan struct{}
	brk     chan struct{}
	brkOnce sync.Once
	once    sync.Once
	gvr     schema.GroupVersionResource
}

func (p *proxyWatch) run() {
	defer close(p.out)
	for {
		select {
		case e, ok := <-p.inner.ResultChan():
			if !ok {
				return
			}
			select {
			case p.out <- e:
			case <-p.stop:
				return
			}
		case <-p.brk:
			// the server expires the watch: 410 Gone, which makes the reflector re-list (a plain close would only make
			// it re-watch from its last resourceVersion, which the fake tracker cannot serve)
			p.inner.Stop()
			select {
			case p.out <- watch.Event{Type: watch.Error, Object: &metav1.Status{Status: metav1.StatusFailure, Code: 410,
				Reason: metav1.StatusReasonExpired, Message: "too old resource version"}}:
			case <-p.stop:
			}
			return
		case <-p.stop:
			return
		}
	}
}
func (p *proxyWatch) expire()                        { p.brkOnce.Do(func() { close(p.brk) }) }
func (p *proxyWatch) Stop()                          { p.once.Do(func() { close(p.stop); p.inner.Stop() }) }
func (p *proxyWatch) ResultChan() <-chan watch.Event { return p.out }

// breakWatches ends every open watch on gvr the way an expired connection does: the stream just closes; the informer's
// reflector re-lists after its back-off and synthesises the deletes it missed (DeletedFinalStateUnknown).
// liveWatches counts the open watches on gvr (with c.mu held).
func (c *cluster) liveWatches(gvr schema.GroupVersionResource) int {
	n := 0
	for _, p := range c.proxies {
		if p.gvr != gvr {
			continue
		}
		select {
		case <-p.brk:
		case <-p.stop:
		default:
			n++
		}
	}
	return n
}

// (called from inside mutate, i.e. with c.mu held)
func (c *cluster) breakWatches(gvr schema.GroupVersionResource) {
	ps := append([]*proxyWatch{}, c.proxies...)
	for _, p := range ps {
		if p.gvr == gvr {
			p.expire()
		}
	}
}

func newCluster(mapped []kindInfo) *cluster {
	listKinds := map[schema.GroupVersionResource]string{}
	for _, k := range allKinds {
		listKinds[k.gvr()] = k.gvk.Kind + "List"
	}
	c := &cluster{mapper: newSwapMapper(mapped)}
	c.client = dynamicfake.NewSimpleDynamicClientWithCustomListKinds(k8sruntime.NewScheme(), listKinds)
	tracker := c.client.Tracker()
	react := clienttesting.ObjectReaction(tracker)
	c.client.PrependReactor("list", "*", func(a clienttesting.Action) (bool, k8sruntime.Object, error) {
		la, ok := a.(clienttesting.ListAction)
		isInformer := ok && la.GetListRestrictions().Labels.Empty() // the cluster reader lists with a label selector
		if isInformer {
			c.mu.Lock()
			c.inflight++
			c.lists++
			c.mu.Unlock()
		}
		if isInformer && c.onList != nil {
			c.onList(a.GetResource(), a.GetNamespace(), "begin")
		}
		h, obj, err := react(a)
		if isInformer && c.onList != nil {
			c.onList(a.GetResource(), a.GetNamespace(), "end")
		}
		return h, obj, err
	})
	c.client.PrependWatchReactor("*", func(a clienttesting.Action) (bool, watch.Interface, error) {
		w, err := tracker.Watch(a.GetResource(), a.GetNamespace())
		if err == nil {
			// a proxy that the harness can break, like a watch connection that the API server expires
			pw := &proxyWatch{inner: w, out: make(chan watch.Event), stop: make(chan struct{}), brk: make(chan struct{}), gvr: a.GetResource()}
			go pw.run()
			c.mu.Lock()
			c.proxies = append(c.proxies, pw)
			c.mu.Unlock()
			w = pw
		}
		c.mu.Lock()
		if c.inflight > 0 {
			c.inflight--
		}
		c.watches++
		c.mu.Unlock()
		return true, w, err
	})
	return c
}

// mutate runs fn while no informer is between its LIST and its WATCH.
func (c *cluster) mutate(fn func()) {
	deadline := time.Now().Add(3 * time.Second)
	for {
		c.mu.Lock()
		if c.inflight == 0 || time.Now().After(deadline) {
			fn()
			c.mu.Unlock()
			return
		}
		c.mu.Unlock()
		time.Sleep(500 * time.Microsecond)
	}
}

func (c *cluster) quiet() bool {
	c.mu.Lock()
	defer c.mu.Unlock()
	return c.inflight == 0
}

// ---------------------------------------------------------------------------------------------------------------------
// domain watcher

type directCfg struct {
	Scope   string      `json:"scope"`   // "root" | "ns"
	Targets [][3]string `json:"targets"` // group, kind, namespace
}

type watcherIn struct {
	Scope     string     `json:"scope"` // "root" | "ns" | "auto"   (RESTScopeStrategy handed to Watch)
	Direct    *directCfg `json:"direct"`
	Watched   []int      `json:"watched"`
	Ids       []jid      `json:"ids"`   // ids of the universe (parameter for the model)
	St        [][]string `json:"st"`    // St[obj][ver]: status the library computes for that version (parameter)
	Steps     [][]any    `json:"steps"` // ["set",obj,ver] ["del",obj] ["bar"] ["watch"]
	CancelAt  int        `json:"cancelAt"`
	Strict    bool       `json:"strict"`
	ListDelay int        `json:"listDelay"` // ms added to every informer LIST of pods
	WidgetOn  bool       `json:"widgetOn"`  // Widget kind known to the mapper from the beginning
	LateServe bool       `json:"lateServe"` // a new CRD's resource is served only from the CRD object's first (status-only) update on
}

type watcherOut struct {
	Panic         bool       `json:"panic"`
	Timeout       bool       `json:"timeout"`
	Closed        bool       `json:"closed"`
	Sync          int        `json:"sync"`
	SyncAfterList bool       `json:"syncAfterList"`
	Errors        int        `json:"errors"`
	NilErrors     int        `json:"nilErrors"` // error events whose Error field is nil (informational)
	Unwatched     int        `json:"unwatched"`
	Seq           [][]string `json:"seq"`
	Final         []string   `json:"final"`
	Started       [][]any    `json:"started"`
	TScope        string     `json:"tscope"`
	Targets       [][]string `json:"targets"`
}

func c16Tables() ([]jid, [][]string) {
	ids := make([]jid, len(c16Objs))
	st := make([][]string, len(c16Objs))
	for i, o := range c16Objs {
		ids[i] = toJid(o.id())
		for v := 0; v < nVersions(o.kind); v++ {
			st[i] = append(st[i], libStatus(mkObj(o, v)))
		}
	}
	return ids, st
}

func sortTargets(ts []watcher.GroupKindNamespace) [][]string {
	r := [][]string{}
	for _, t := range ts {
		r = append(r, []string{t.Group, t.Kind, t.Namespace})
	}
	sort.Slice(r, func(i, j int) bool { return strings.Join(r[i], "\x00") < strings.Join(r[j], "\x00") })
	return r
}

func runWatcherCase(in watcherIn) (out watcherOut) {
	out.Seq = make([][]string, len(in.Watched))
	out.Final = make([]string, len(in.Watched))
	out.Started = [][]any{}
	out.Targets = [][]string{}
	for i := range out.Seq {
		out.Seq[i] = []string{}
	}
	defer func() {
		if r := recover(); r != nil {
			out.Panic = true
		}
	}()
	mapped := []kindInfo{kPod, kCM, kDep, kRS, kNS, kCRD, kSvc}
	if in.WidgetOn {
		mapped = append(mapped, kWidget)
	}
	cl := newCluster(mapped)
	tracker := cl.client.Tracker()
	var ids object.ObjMetadataSet
	widx := map[object.ObjMetadata]int{}
	for k, i := range in.Watched {
		ids = append(ids, c16Objs[i].id())
		widx[c16Objs[i].id()] = k
	}

	// log of LIST completions / events, for "sync comes after the initial LISTs"
	var mu sync.Mutex
	listsOpen := 0 // informer LISTs begun and not finished
	listsDone := 0
	syncEarly := false
	seq := make([][]string, len(in.Watched))
	syncs, errs, nilErrs, unwatched := 0, 0, 0, 0
	cl.onList = func(gvr schema.GroupVersionResource, ns string, phase string) {
		if phase == "begin" {
			mu.Lock()
			listsOpen++
			mu.Unlock()
			if in.ListDelay > 0 && gvr.Resource == "pods" {
				time.Sleep(time.Duration(in.ListDelay) * time.Millisecond)
			}
			return
		}
		mu.Lock()
		listsOpen--
		listsDone++
		mu.Unlock()
	}

	cur := map[int]int{}   // object → current version
	ever := map[int]bool{} // object existed at some time
	expected := func(i int) string {
		if v, ok := cur[i]; ok {
			return libStatus(mkObj(c16Objs[i], v))
		}
		if ever[i] {
			return "NotFound"
		}
		return "none"
	}
	widgetMapped := in.WidgetOn
	apply := func(step []any) {
		op := anyStr(step[0])
		i := anyInt(step[1])
		o := c16Objs[i]
		switch op {
		case "set":
			v := anyInt(step[2])
			u := mkObj(o, v)
			_, crdExists := cur[i]
			if i == oCrd && !widgetMapped && (!in.LateServe || crdExists) {
				// the API server serves the new resource before the CRD object's watchers hear of it; with lateServe the CRD
				// is "established" only by its first update, which changes status alone (metadata.generation stays 1)
				cl.mapper.set(append(append([]kindInfo{}, mapped...), kWidget))
				widgetMapped = true
			}
			cl.mutate(func() {
				if _, ok := cur[i]; ok {
					_ = tracker.Update(o.kind.gvr(), u, o.ns)
				} else {
					_ = tracker.Create(o.kind.gvr(), u, o.ns)
				}
			})
			cur[i] = v
			ever[i] = true
		case "gapdel":
			// the watch connection on this resource breaks, the object is deleted while no watch is open, the informer re-lists
			if _, ok := cur[i]; !ok {
				return
			}
			n0 := 0
			cl.mutate(func() {
				n0 = cl.liveWatches(o.kind.gvr())
				cl.breakWatches(o.kind.gvr())
				_ = tracker.Delete(o.kind.gvr(), o.ns, o.name)
			})
			delete(cur, i)
			// the connection stays down until the reflectors have re-listed and opened new watches (their back-off, about a
			// second); what happens to this resource meanwhile is a different scenario (changes inside the gap are merged)
			for dl := time.Now().Add(6 * time.Second); ; {
				cl.mu.Lock()
				n := cl.liveWatches(o.kind.gvr())
				idle := cl.inflight == 0
				cl.mu.Unlock()
				if n >= n0 && idle {
					break
				}
				if time.Now().After(dl) {
					out.Timeout = true
					break
				}
				time.Sleep(2 * time.Millisecond)
			}
		case "del":
			if _, ok := cur[i]; !ok {
				return
			}
			cl.mutate(func() { _ = tracker.Delete(o.kind.gvr(), o.ns, o.name) })
			delete(cur, i)
			if i == oCrd && widgetMapped && !in.WidgetOn {
				cl.mapper.set(mapped)
				widgetMapped = false
			}
		}
	}

	ctx, cancel := ctxWithCause()
	defer cancel()
	var evCh <-chan event.Event
	var reporter *watcher.ObjectStatusReporter
	consDone := make(chan struct{})
	startWatch := func() {
		if in.Direct != nil {
			scope := meta.RESTScopeNamespace
			if in.Direct.Scope == "root" {
				scope = meta.RESTScopeRoot
			}
			var ts []watcher.GroupKindNamespace
			for _, t := range in.Direct.Targets {
				ts = append(ts, watcher.GroupKindNamespace{Group: t[0], Kind: t[1], Namespace: t[2]})
			}
			reporter = &watcher.ObjectStatusReporter{
				InformerFactory: watcher.NewDynamicInformerFactory(cl.client, time.Hour),
				Mapper:          cl.mapper,
				StatusReader:    statusreaders.NewDefaultStatusReader(cl.mapper),
				ClusterReader:   &clusterreader.DynamicClusterReader{DynamicClient: cl.client, Mapper: cl.mapper},
				Targets:         ts,
				ObjectFilter:    &watcher.AllowListObjectFilter{AllowList: ids},
				RESTScope:       scope,
			}
			out.TScope = in.Direct.Scope
			out.Targets = sortTargets(ts)
			evCh = reporter.Start(ctx)
		} else {
			strat := watcher.RESTScopeAutomatic
			switch in.Scope {
			case "root":
				strat = watcher.RESTScopeRoot
			case "ns":
				strat = watcher.RESTScopeNamespace
			}
			sc, ts := watcher.VerifTargets(strat, ids)
			out.TScope = sc
			out.Targets = sortTargets(ts)
			w := watcher.NewDefaultStatusWatcher(cl.client, cl.mapper)
			evCh = w.Watch(ctx, ids, watcher.Options{RESTScopeStrategy: strat})
		}
		go func() {
			defer close(consDone)
			for e := range evCh {
				mu.Lock()
				switch e.Type {
				case event.SyncEvent:
					syncs++
					if in.Strict && (listsOpen > 0 || listsDone == 0) {
						syncEarly = true
					}
				case event.ErrorEvent:
					errs++
					if e.Error == nil {
						nilErrs++
					}
				case event.ResourceUpdateEvent:
					if e.Resource == nil {
						unwatched++
					} else if k, ok := widx[e.Resource.Identifier]; ok {
						seq[k] = append(seq[k], e.Resource.Status.String())
					} else {
						unwatched++
					}
				default:
					unwatched++
				}
				mu.Unlock()
			}
		}()
	}
	started := false
	barrier := func(needSync bool) {
		if !started || out.Timeout {
			return
		}
		deadline := time.Now().Add(4 * time.Second)
		okSince := time.Time{}
		for {
			mu.Lock()
			ok := !needSync || syncs > 0 || errs > 0
			for k, i := range in.Watched {
				want := expected(i)
				got := "none"
				if n := len(seq[k]); n > 0 {
					got = seq[k][n-1]
				}
				if got != want && !(want == "NotFound" && got == "none" && !in.Strict) {
					// (not strict: an object created and deleted before its informer's first LIST is never reported)
					ok = false
				}
			}
			mu.Unlock()
			if ok && !cl.quiet() {
				ok = false
			}
			now := time.Now()
			if ok {
				if okSince.IsZero() {
					okSince = now
				}
				if now.Sub(okSince) >= 25*time.Millisecond {
					return
				}
			} else {
				okSince = time.Time{}
			}
			if now.After(deadline) {
				out.Timeout = true
				return
			}
			time.Sleep(time.Millisecond)
		}
	}
	cancelled := false
	for n, step := range in.Steps {
		if in.CancelAt >= 0 && n == in.CancelAt {
			cancel()
			cancelled = true
			break
		}
		switch anyStr(step[0]) {
		case "watch":
			// only what the watcher can have seen counts as "existed"
			for i := range ever {
				if _, ok := cur[i]; !ok {
					delete(ever, i)
				}
			}
			startWatch()
			started = true
			if in.Strict {
				barrier(true)
			}
		case "bar":
			barrier(in.Strict)
		default:
			apply(step)
		}
	}
	if !started {
		startWatch()
		started = true
	}
	if !cancelled {
		barrier(true)
		if reporter != nil {
			st := watcher.VerifStarted(reporter)
			for gkn, b := range st {
				out.Started = append(out.Started, []any{gkn.Group, gkn.Kind, gkn.Namespace, b})
			}
			sort.Slice(out.Started, func(i, j int) bool {
				return fmt.Sprint(out.Started[i][:3]...) < fmt.Sprint(out.Started[j][:3]...)
			})
		}
		cancel()
	}
	select {
	case <-consDone:
		out.Closed = true
	case <-time.After(6 * time.Second):
	}
	mu.Lock()
	for k := range seq {
		out.Seq[k] = append([]string{}, seq[k]...)
	}
	out.Sync, out.Errors, out.Unwatched = syncs, errs, unwatched
	out.NilErrors = nilErrs
	out.SyncAfterList = !syncEarly
	mu.Unlock()
	// final cluster state as the tracker holds it, status recomputed by the library
	for k, i := range in.Watched {
		o := c16Objs[i]
		obj, err := tracker.Get(o.kind.gvr(), o.ns, o.name)
		switch {
		case err == nil:
			if u, ok := obj.(*unstructured.Unstructured); ok {
				out.Final[k] = libStatus(u)
			} else {
				out.Final[k] = "error"
			}
		case apierrors.IsNotFound(err) && ever[i]:
			out.Final[k] = "NotFound"
		default:
			out.Final[k] = "none"
		}
	}
	return out
}

// ---- generator

func genWatcherCase(rng *proto.Rng, ids []jid, st [][]string) watcherIn {
	in := watcherIn{Ids: ids, St: st, CancelAt: -1, Strict: true, Steps: [][]any{}}
	in.Scope = proto.Pick(rng, []string{"root", "ns", "ns", "auto"})
	// watched set
	pool := []int{oPodA, oPodB, oCmA, oDepA}
	for _, i := range pool {
		if rng.Chance(1, 2) {
			in.Watched = append(in.Watched, i)
		}
	}
	if len(in.Watched) == 0 {
		in.Watched = []int{proto.Pick(rng, pool)}
	}
	nsScenario := rng.Chance(1, 3)
	crdScenario := rng.Chance(1, 4)
	if nsScenario {
		in.Watched = append(in.Watched, oNs1)
	}
	if crdScenario {
		in.Watched = append(in.Watched, oWidget, oCrd)
		if rng.Bool() {
			in.Watched = append(in.Watched, oWidget2) // the same custom kind in a second namespace
		}
		in.WidgetOn = rng.Chance(1, 4)
		in.LateServe = !in.WidgetOn && rng.Chance(1, 2)
	}
	watched := map[int]bool{}
	for _, i := range in.Watched {
		watched[i] = true
	}
	// effective scope (what the code will choose) — needed only to keep the script inside what a real cluster can do
	nss := map[string]bool{}
	for _, i := range in.Watched {
		nss[c16Objs[i].ns] = true
	}
	eff := in.Scope
	if eff == "auto" {
		eff = "ns"
		if len(nss) > 1 {
			eff = "root"
		}
	}
	in.Strict = rng.Chance(3, 4)
	if rng.Chance(1, 5) {
		in.ListDelay = 130
	}
	cur := map[int]int{}
	add := func(s ...any) { in.Steps = append(in.Steps, s) }
	nsObjs := []int{oPodA, oPodU, oCmA, oDepA, oWidget}
	mutable := []int{oPodA, oPodB, oPodU, oCmA, oCmU, oDepA}
	if crdScenario {
		mutable = append(mutable, oWidget)
		if watchedHas(in.Watched, oWidget2) {
			mutable = append(mutable, oWidget2, oWidget2)
		}
	}
	nsGone := false
	crdThere := false
	gapOK := false // broken watches only once the watcher runs (there is no watch to break before)
	inNs1 := func(i int) bool { return c16Objs[i].ns == "ns1" }
	mutateOne := func() {
		i := proto.Pick(rng, mutable)
		if inNs1(i) && nsGone {
			return
		}
		if (i == oWidget || i == oWidget2) && !crdThere {
			return // the Widget informer is certainly running only while the CRD object exists
		}
		if _, ok := cur[i]; ok && rng.Chance(1, 4) {
			if gapOK && rng.Chance(1, 4) {
				add("bar") // everything sent so far has been delivered before the connection breaks
				add("gapdel", i)
				add("bar")
			} else {
				add("del", i)
			}
			delete(cur, i)
			return
		}
		v := rng.Intn(nVersions(c16Objs[i].kind))
		add("set", i, v)
		cur[i] = v
	}
	// pre-existing objects
	if nsScenario && rng.Chance(2, 3) {
		add("set", oNs1, 0)
		cur[oNs1] = 0
	}
	// (when the Namespace object is not there yet its informers still run: Start() starts every target)
	for k := rng.Intn(3); k > 0; k-- {
		mutateOne()
	}
	add("watch")
	gapOK = in.Strict && !crdScenario && !nsScenario
	steps := 2 + rng.Intn(7)
	for s := 0; s < steps; s++ {
		switch {
		case nsScenario && rng.Chance(1, 4):
			if _, ok := cur[oNs1]; ok && rng.Chance(1, 2) {
				// delete the namespace the way a cluster does: contents first
				for _, i := range nsObjs {
					if _, ok := cur[i]; ok {
						add("del", i)
						delete(cur, i)
					}
				}
				add("bar")
				add("del", oNs1)
				delete(cur, oNs1)
				add("bar")
				if eff == "ns" {
					nsGone = true
				}
			} else {
				add("set", oNs1, rng.Intn(2))
				cur[oNs1] = 0
				add("bar")
				nsGone = false
			}
		case crdScenario && rng.Chance(1, 3):
			if crdThere && rng.Chance(1, 2) {
				for _, wi := range []int{oWidget, oWidget2} {
					if _, ok := cur[wi]; ok {
						add("del", wi)
						delete(cur, wi)
					}
				}
				add("bar")
				add("del", oCrd)
				delete(cur, oCrd)
				crdThere = false
				add("bar")
			} else {
				add("set", oCrd, rng.Intn(2))
				_, existed := cur[oCrd]
				cur[oCrd] = 0
				if !in.LateServe || existed {
					crdThere = true
				}
				add("bar")
			}
		default:
			mutateOne()
			if in.Strict && rng.Chance(1, 3) {
				add("bar")
			}
		}
	}
	if rng.Chance(1, 6) {
		in.CancelAt = rng.Intn(len(in.Steps) + 1)
		if in.CancelAt == len(in.Steps) {
			in.CancelAt = -1
		}
	}
	return in
}

func watchedHas(w []int, i int) bool {
	for _, x := range w {
		if x == i {
			return true
		}
	}
	return false
}

// hand-written configurations the random generator cannot reach through Watch: a reporter whose scope and targets
// disagree (root scope with namespaced targets and vice versa), with the informer table read back at the end.
func directWatcherCases(ids []jid, st [][]string) []watcherIn {
	mk := func(scope string, targets [][3]string, watched []int, steps [][]any) watcherIn {
		return watcherIn{Scope: scope, Direct: &directCfg{Scope: scope, Targets: targets}, Watched: watched, Ids: ids, St: st,
			Steps: steps, CancelAt: -1, Strict: true}
	}
	podNs1 := [3]string{"", "Pod", "ns1"}
	podAll := [3]string{"", "Pod", ""}
	nsT := [3]string{"", "Namespace", ""}
	crdT := [3]string{"apiextensions.k8s.io", "CustomResourceDefinition", ""}
	widT := [3]string{"example.com", "Widget", "ns1"}
	widT2 := [3]string{"example.com", "Widget", "ns2"}
	s := func(x ...any) []any { return x }
	var cs []watcherIn
	for _, scope := range []string{"root", "ns"} {
		// namespace object deleted while a namespaced target exists; pod a survives (no cascade in the fake)
		steps := [][]any{s("set", oNs1, 0), s("set", oPodA, 0), s("watch"), s("set", oPodA, 1), s("bar")}
		if scope == "root" {
			steps = append(steps, s("del", oNs1), s("bar"), s("set", oPodA, 0), s("bar"), s("del", oPodA), s("bar"))
		} else {
			steps = append(steps, s("del", oPodA), s("bar"), s("del", oNs1), s("bar"), s("set", oNs1, 1), s("bar"), s("set", oPodA, 3), s("bar"))
		}
		cs = append(cs, mk(scope, [][3]string{podNs1, nsT}, []int{oPodA, oNs1}, steps))
		cs = append(cs, mk(scope, [][3]string{podAll, nsT}, []int{oPodA, oPodB, oNs1},
			[][]any{s("watch"), s("set", oNs1, 0), s("set", oPodA, 0), s("set", oPodB, 1), s("bar"), s("del", oNs1), s("bar"), s("set", oPodB, 0), s("set", oPodA, 1), s("bar")}))
		// CRD installed after start, removed, installed again
		cs = append(cs, mk(scope, [][3]string{widT, crdT, podNs1}, []int{oWidget, oCrd, oPodA},
			[][]any{s("watch"), s("set", oPodA, 1), s("bar"), s("set", oCrd, 0), s("bar"), s("set", oWidget, 0), s("set", oCrd, 1), s("bar"),
				s("del", oWidget), s("bar"), s("del", oCrd), s("bar"), s("set", oCrd, 1), s("bar"), s("set", oWidget, 1), s("bar")}))
		// CRD created while its resource is not yet served; established by a status-only update; then the custom resource appears
		// the watch on pods breaks, pod a is deleted while it is down, the re-list reports it (DeletedFinalStateUnknown)
		cs = append(cs, mk(scope, [][3]string{podNs1}, []int{oPodA},
			[][]any{s("set", oPodA, 1), s("watch"), s("bar"), s("gapdel", oPodA), s("bar"), s("set", oPodA, 0), s("bar")}))
		// the same custom kind watched in two namespaces; its CRD is installed after start, removed, installed again: every
		// target of the kind is started / stopped, not one of them
		if scope == "ns" {
			cs = append(cs, mk(scope, [][3]string{widT, widT2, crdT}, []int{oWidget, oWidget2, oCrd},
				[][]any{s("watch"), s("set", oCrd, 0), s("bar"), s("set", oWidget, 0), s("set", oWidget2, 0), s("bar"), s("set", oWidget2, 1), s("set", oWidget, 1), s("bar"),
					s("del", oWidget), s("del", oWidget2), s("bar"), s("del", oCrd), s("bar"), s("set", oCrd, 1), s("bar"), s("set", oWidget2, 0), s("set", oWidget, 0), s("bar")}))
		}
		late := mk(scope, [][3]string{widT, crdT, podNs1}, []int{oWidget, oCrd, oPodA},
			[][]any{s("watch"), s("set", oCrd, 0), s("bar"), s("set", oCrd, 1), s("bar"), s("set", oWidget, 0), s("bar"), s("set", oWidget, 1), s("bar"),
				s("del", oWidget), s("bar")})
		late.LateServe = true
		cs = append(cs, late)
	}
	return cs
}

// runWatcherBatch: cases run concurrently; once many have timed out the remaining ones are skipped (nil result).
func runWatcherBatch(ins []watcherIn, par int) []*watcherOut {
	outs := make([]*watcherOut, len(ins))
	sem := make(chan struct{}, par)
	var wg sync.WaitGroup
	var badMu sync.Mutex
	bad := 0
	for i := range ins {
		wg.Add(1)
		sem <- struct{}{}
		go func(i int) {
			defer wg.Done()
			defer func() { <-sem }()
			badMu.Lock()
			skip := bad >= 16
			badMu.Unlock()
			if skip {
				return
			}
			t0 := time.Now()
			o := runWatcherCase(ins[i])
			outs[i] = &o
			if o.Timeout || o.Panic || !o.Closed {
				badMu.Lock()
				bad++
				badMu.Unlock()
			}
			if os.Getenv("VERIF_C16_TIMING") != "" {
				fmt.Fprintf(os.Stderr, "case %d: %v timeout=%v\n", i, time.Since(t0).Round(time.Millisecond), outs[i].Timeout)
			}
		}(i)
	}
	wg.Wait()
	return outs
}

func genWatcher(out *proto.Out, rng *proto.Rng, tier string) {
	ids, st := c16Tables()
	n := 700
	if tier == "thorough" {
		n = 6000
	}
	ins := directWatcherCases(ids, st)
	for i := 0; i < n; i++ {
		ins = append(ins, genWatcherCase(rng, ids, st))
	}
	outs := runWatcherBatch(ins, 24)
	for i := range ins {
		if outs[i] != nil {
			out.Emit("watcher", ins[i], *outs[i])
		}
	}
}

// ---------------------------------------------------------------------------------------------------------------------
// domain watcher-fatal

type fatalIn struct {
	Scope     string `json:"scope"`     // "root" | "ns"
	Forbidden int    `json:"forbidden"` // how many of the three watched kinds have a Forbidden LIST
	ConsDelay int    `json:"consDelay"` // ms before the consumer starts receiving
	Trial     int    `json:"trial"`
	// what the failing LISTs answer: "" = Forbidden (fatal), "notfound" = the resource is not registered (its informers are
	// stopped, nothing else happens), "servererr" = 500 (retried for ever)
	Mode string `json:"mode,omitempty"`
}

type fatalOut struct {
	Panic     bool `json:"panic"`
	Closed    bool `json:"closed"`
	Errors    int  `json:"errors"`
	NilErrors int  `json:"nilErrors"` // error events whose Error field is nil (informational)
	Sync      int  `json:"sync"`
	Other     int  `json:"other"`
}

func runFatalCase(in fatalIn) (out fatalOut) {
	defer func() {
		if r := recover(); r != nil {
			out.Panic = true
		}
	}()
	cl := newCluster([]kindInfo{kPod, kCM, kSvc, kDep, kRS, kNS})
	kinds := []kindInfo{kPod, kCM, kSvc}
	for k := 0; k < in.Forbidden && k < len(kinds); k++ {
		res := kinds[k].resource
		gr := schema.GroupResource{Group: kinds[k].gvk.Group, Resource: res}
		cl.client.PrependReactor("list", res, func(a clienttesting.Action) (bool, k8sruntime.Object, error) {
			switch in.Mode {
			case "notfound":
				return true, nil, apierrors.NewNotFound(gr, "")
			case "servererr":
				return true, nil, apierrors.NewInternalError(fmt.Errorf("boom"))
			}
			return true, nil, apierrors.NewForbidden(gr, "", fmt.Errorf("not allowed"))
		})
	}
	ids := object.ObjMetadataSet{
		objSpec{kPod, "ns1", "a"}.id(), objSpec{kCM, "ns1", "c"}.id(), objSpec{kSvc, "ns1", "s"}.id(),
	}
	strat := watcher.RESTScopeNamespace
	if in.Scope == "root" {
		strat = watcher.RESTScopeRoot
	}
	ctx, cancel := ctxWithCause()
	defer cancel()
	w := watcher.NewDefaultStatusWatcher(cl.client, cl.mapper)
	ch := w.Watch(ctx, ids, watcher.Options{RESTScopeStrategy: strat})
	done := make(chan struct{})
	go func() {
		defer close(done)
		time.Sleep(time.Duration(in.ConsDelay) * time.Millisecond)
		for e := range ch {
			switch e.Type {
			case event.ErrorEvent:
				out.Errors++
				if e.Error == nil {
					out.NilErrors++
				}
				if os.Getenv("VERIF_C16_DEBUG") != "" {
					fmt.Fprintf(os.Stderr, "ERR[%s f=%d t=%d]: %v\n", in.Scope, in.Forbidden, in.Trial, e.Error)
				}
			case event.SyncEvent:
				out.Sync++
			default:
				out.Other++
			}
		}
	}()
	tmo := 6 * time.Second
	if in.Forbidden == 0 || in.Mode != "" {
		// nothing fails fatally: the watcher runs until cancelled
		time.Sleep(250 * time.Millisecond)
		cancel()
	}
	select {
	case <-done:
		out.Closed = true
	case <-time.After(tmo):
		cancel()
		<-done
	}
	return out
}

func genFatal(out *proto.Out, rng *proto.Rng, tier string) {
	var ins []fatalIn
	rep := 1
	if tier == "thorough" {
		rep = 6
	}
	for r := 0; r < rep; r++ {
		for _, scope := range []string{"root", "ns"} {
			ins = append(ins, fatalIn{Scope: scope, Forbidden: 0, Trial: r})
			for t := 0; t < 3; t++ {
				ins = append(ins, fatalIn{Scope: scope, Forbidden: 1, ConsDelay: rng.Intn(3) * 10, Trial: r*3 + t})
			}
			for t := 0; t < 6; t++ {
				ins = append(ins, fatalIn{Scope: scope, Forbidden: 2, ConsDelay: rng.Intn(4) * 10, Trial: r*6 + t})
			}
			for t := 0; t < 14; t++ {
				ins = append(ins, fatalIn{Scope: scope, Forbidden: 3, ConsDelay: rng.Intn(4) * 10, Trial: r*14 + t})
			}
			for _, mode := range []string{"notfound", "servererr"} {
				for k := 1; k <= 3; k++ {
					ins = append(ins, fatalIn{Scope: scope, Forbidden: k, Mode: mode, Trial: r})
				}
			}
		}
	}
	outs := make([]fatalOut, len(ins))
	sem := make(chan struct{}, 12)
	var wg sync.WaitGroup
	for i := range ins {
		wg.Add(1)
		sem <- struct{}{}
		go func(i int) {
			defer wg.Done()
			defer func() { <-sem }()
			outs[i] = runFatalCase(ins[i])
		}(i)
	}
	wg.Wait()
	for i := range ins {
		out.Emit("watcher-fatal", ins[i], outs[i])
	}
}

func init() {
	// client-go's reflector warns on every failed LIST; the harness injects those failures on purpose
	klog.LogToStderr(false)
	klog.SetOutput(io.Discard)
	if len(os.Args) > 1 && os.Args[1] == "funnel-exec" {
		funnelExecChild()
		os.Exit(0)
	}
	register("funnel", domain{gen: genFunnel, run: func(raw json.RawMessage) (any, error) {
		var in funnelIn
		if err := json.Unmarshal(raw, &in); err != nil {
			return nil, err
		}
		return runFunnelShard([]funnelIn{in})[0], nil
	}})
	register("watcher", domain{gen: genWatcher, run: func(raw json.RawMessage) (any, error) {
		var in watcherIn
		if err := json.Unmarshal(raw, &in); err != nil {
			return nil, err
		}
		return runWatcherCase(in), nil
	}})
	register("watcher-fatal", domain{gen: genFatal, run: func(raw json.RawMessage) (any, error) {
		var in fatalIn
		if err := json.Unmarshal(raw, &in); err != nil {
			return nil, err
		}
		return runFatalCase(in), nil
	}})
}

// ---------------------------------------------------------------------------------------------------------------------
// domain watcher-unsched: a pod that the scheduler cannot place.  Inside the schedule window (status.ScheduleWindow, 15 s, a
// constant of the library) the library computes InProgress, after it Failed — WITHOUT any change of the object.  The reporter
// therefore schedules a delayed re-read from the cluster (taskManager, newStatusCheckTaskFunc, readStatusFromCluster,
// DynamicClusterReader.Get) so that "the last event for each object reflects its final cluster state" still holds; the task
// is cancelled when the object changes or disappears first.  Real time is unavoidable here: every case takes ~16 s, they run
// concurrently.

type unschedIn struct {
	Rep   int    `json:"rep,omitempty"` // repetition number (thorough tier, the racing cases)
	Scope string `json:"scope"`         // "root" | "ns"
	Then  string `json:"then"`  // "nothing" | "scheduled" (the pod gets placed after 1 s) | "deleted" (after 1 s) | "touched" (updated after 1 s, still unplaced) |
	// "deadline" / "cancel-early" (the watch ends 2 s in, by the context's own deadline / by cancel, the re-check still pending) |
	// "ns-deleted" (the watched namespace of the pod disappears after 1 s, before the pod does: its informers are stopped while
	// the delayed re-check of the pod is still pending; the watcher itself keeps running until cancelled)
}

type unschedOut struct {
	Panic   bool     `json:"panic"`
	Closed  bool     `json:"closed"`
	Errors  int      `json:"errors"`
	Seq     []string `json:"seq"`
	Final   string   `json:"final"`   // status the library computes for the final cluster state, at the end
	Foreign int      `json:"foreign"` // events for other objects
}

func unschedPod(scheduled bool) *unstructured.Unstructured {
	u := &unstructured.Unstructured{Object: map[string]any{}}
	u.SetGroupVersionKind(kPod.gvk)
	u.SetName("a")
	u.SetNamespace("ns1")
	u.SetGeneration(1)
	u.SetCreationTimestamp(metav1.NewTime(time.Now()))
	_ = unstructured.SetNestedField(u.Object, []any{map[string]any{"name": "c", "image": "i"}}, "spec", "containers")
	if scheduled {
		_ = unstructured.SetNestedField(u.Object, "Running", "status", "phase")
		_ = unstructured.SetNestedField(u.Object, []any{
			map[string]any{"type": "PodScheduled", "status": "True"},
			map[string]any{"type": "Ready", "status": "True"}}, "status", "conditions")
	} else {
		_ = unstructured.SetNestedField(u.Object, "Pending", "status", "phase")
		_ = unstructured.SetNestedField(u.Object, []any{
			map[string]any{"type": "PodScheduled", "status": "False", "reason": "Unschedulable"}}, "status", "conditions")
	}
	return u
}

func runUnschedCase(in unschedIn) (out unschedOut) {
	out.Seq = []string{}
	defer func() {
		if r := recover(); r != nil {
			out.Panic = true
		}
	}()
	cl := newCluster([]kindInfo{kPod, kCM, kSvc, kDep, kRS, kNS})
	tracker := cl.client.Tracker()
	pod := unschedPod(false)
	_ = tracker.Create(kPod.gvr(), pod, "ns1")
	id := objSpec{kPod, "ns1", "a"}.id()
	ids := object.ObjMetadataSet{id}
	if in.Then == "ns-deleted" {
		ns := &unstructured.Unstructured{Object: map[string]any{}}
		ns.SetGroupVersionKind(kNS.gvk)
		ns.SetName("ns1")
		_ = unstructured.SetNestedField(ns.Object, "Active", "status", "phase")
		_ = tracker.Create(kNS.gvr(), ns, "")
		ids = append(ids, objSpec{kNS, "", "ns1"}.id())
	}
	strat := watcher.RESTScopeNamespace
	if in.Scope == "root" {
		strat = watcher.RESTScopeRoot
	}
	ctx, cancel := context.WithCancel(context.Background())
	defer cancel()
	if in.Then == "deadline" {
		// the caller's context ends by its own deadline (not by cancel) while the delayed re-check is pending
		var c2 context.CancelFunc
		ctx, c2 = context.WithTimeout(ctx, 2*time.Second)
		defer c2()
	}
	w := watcher.NewDefaultStatusWatcher(cl.client, cl.mapper)
	ch := w.Watch(ctx, ids, watcher.Options{RESTScopeStrategy: strat})
	var mu sync.Mutex
	done := make(chan struct{})
	go func() {
		defer close(done)
		for e := range ch {
			mu.Lock()
			switch e.Type {
			case event.ErrorEvent:
				out.Errors++
			case event.ResourceUpdateEvent:
				if e.Resource != nil && e.Resource.Identifier == id {
					out.Seq = append(out.Seq, e.Resource.Status.String())
				} else {
					out.Foreign++
				}
			}
			mu.Unlock()
		}
	}()
	time.Sleep(time.Second)
	switch in.Then {
	case "scheduled":
		cl.mutate(func() { _ = tracker.Update(kPod.gvr(), unschedPod(true), "ns1") })
	case "deleted":
		cl.mutate(func() { _ = tracker.Delete(kPod.gvr(), "ns1", "a") })
	case "ns-deleted":
		cl.mutate(func() { _ = tracker.Delete(kNS.gvr(), "", "ns1") })
	case "touched":
		// an update that leaves the pod unplaced: the pending re-check is cancelled and scheduled afresh (one, not two)
		cl.mutate(func() {
			p2 := unschedPod(false)
			p2.SetCreationTimestamp(pod.GetCreationTimestamp())
			p2.SetLabels(map[string]string{"touched": "yes"})
			_ = tracker.Update(kPod.gvr(), p2, "ns1")
		})
		time.Sleep(time.Second)
	}
	if in.Then == "deadline" || in.Then == "cancel-early" {
		// the watch ends inside the schedule window: the pending re-check must die with it (no event, no send on a closed channel);
		// two more seconds are watched for a late effect
		time.Sleep(time.Second)
		if in.Then == "cancel-early" {
			cancel()
		}
		select {
		case <-done:
			out.Closed = true
		case <-time.After(6 * time.Second):
		}
		time.Sleep(2 * time.Second)
		if obj, err := tracker.Get(kPod.gvr(), "ns1", "a"); err == nil {
			if u, ok := obj.(*unstructured.Unstructured); ok {
				out.Final = libStatus(u)
			}
		}
		mu.Lock()
		defer mu.Unlock()
		return out
	}
	// past the schedule window (counted from the first report), with a margin
	time.Sleep(status.ScheduleWindow + 3*time.Second - time.Second)
	if obj, err := tracker.Get(kPod.gvr(), "ns1", "a"); err == nil {
		if u, ok := obj.(*unstructured.Unstructured); ok {
			out.Final = libStatus(u)
		}
	} else {
		out.Final = "NotFound"
	}
	cancel()
	select {
	case <-done:
		out.Closed = true
	case <-time.After(6 * time.Second):
	}
	mu.Lock()
	defer mu.Unlock()
	return out
}

// runUnschedIsolated runs one case in a child process: the delayed re-check runs on a goroutine of the library, a panic there
// (e.g. a send on the closed channel of a stopped informer) cannot be recovered here and would take the whole harness down.
func runUnschedIsolated(in unschedIn) unschedOut {
	dead := unschedOut{Panic: true, Seq: []string{}}
	exe, err := os.Executable()
	if err != nil {
		return dead
	}
	b, _ := json.Marshal(in)
	cmd := exec.Command(exe, "unsched-exec", string(b))
	cmd.Stderr = io.Discard
	if os.Getenv("VERIF_C16_CHILD_STDERR") != "" {
		cmd.Stderr = os.Stderr
	}
	raw, err := cmd.Output()
	if err != nil {
		return dead
	}
	var out unschedOut
	if json.Unmarshal(raw, &out) != nil {
		return dead
	}
	return out
}

func genUnsched(out *proto.Out, _ *proto.Rng, tier string) {
	var ins []unschedIn
	for _, scope := range []string{"root", "ns"} {
		for _, then := range []string{"nothing", "scheduled", "deleted", "touched"} {
			ins = append(ins, unschedIn{Scope: scope, Then: then})
		}
	}
	ins = append(ins, unschedIn{Scope: "ns", Then: "ns-deleted"})
	for _, scope := range []string{"root", "ns"} {
		ins = append(ins, unschedIn{Scope: scope, Then: "deadline"}, unschedIn{Scope: scope, Then: "cancel-early"})
		if tier == "thorough" {
			// the end of the watch races with the pending re-check: repeated, the short cases cost 5 s each and run concurrently
			for rep := 1; rep <= 8; rep++ {
				ins = append(ins, unschedIn{Scope: scope, Then: "deadline", Rep: rep}, unschedIn{Scope: scope, Then: "cancel-early", Rep: rep})
			}
		}
	}
	res := make([]unschedOut, len(ins))
	var wg sync.WaitGroup
	for i := range ins {
		wg.Add(1)
		go func(i int) { defer wg.Done(); res[i] = runUnschedIsolated(ins[i]) }(i)
	}
	wg.Wait()
	for i := range ins {
		out.Emit("watcher-unsched", ins[i], res[i])
	}
}

func init() {
	if len(os.Args) > 2 && os.Args[1] == "unsched-exec" {
		var in unschedIn
		if err := json.Unmarshal([]byte(os.Args[2]), &in); err != nil {
			os.Exit(2)
		}
		b, _ := json.Marshal(runUnschedCase(in))
		os.Stdout.Write(append(b, '\n'))
		os.Exit(0)
	}
	register("watcher-unsched", domain{gen: genUnsched, run: func(raw json.RawMessage) (any, error) {
		var in unschedIn
		if err := json.Unmarshal(raw, &in); err != nil {
			return nil, err
		}
		return runUnschedIsolated(in), nil
	}})
}

// ---------------------------------------------------------------------------------------------------------------------
// domain watcher-late: the watcher is cancelled while an informer is in the middle of a paginated LIST (the API server hands
// out pages slowly).  Once the event channel has closed no further request may reach the server: every call the informers
// make must be made under a context that ends with the watcher's.  The dynamic client is wrapped so that LIST honours the
// context it is given (as a real HTTP client does: a call under an ended context never reaches the server) and pages.

type lateIn struct {
	Scope    string `json:"scope"`
	Pages    int    `json:"pages"`    // pages of the pod LIST
	CancelAt int    `json:"cancelAt"` // the context is cancelled when this page has been requested
}

type lateOut struct {
	Panic     bool `json:"panic"`
	Closed    bool `json:"closed"`
	LateLists int  `json:"lateLists"` // LIST page requests that reached the server after the channel had closed
}

type pagingClient struct {
	dynamic.Interface
	st *pagingState
}
type pagingState struct {
	mu       sync.Mutex
	pages    int
	served   int
	onPage   func(n int)
	closedAt time.Time
	late     int
}
type pagingRes struct {
	dynamic.NamespaceableResourceInterface
	st  *pagingState
	gvr schema.GroupVersionResource
}
type pagingNsRes struct {
	dynamic.ResourceInterface
	st  *pagingState
	gvr schema.GroupVersionResource
}

func (c *pagingClient) Resource(gvr schema.GroupVersionResource) dynamic.NamespaceableResourceInterface {
	return &pagingRes{NamespaceableResourceInterface: c.Interface.Resource(gvr), st: c.st, gvr: gvr}
}
func (r *pagingRes) Namespace(ns string) dynamic.ResourceInterface {
	return &pagingNsRes{ResourceInterface: r.NamespaceableResourceInterface.Namespace(ns), st: r.st, gvr: r.gvr}
}
func (r *pagingRes) List(ctx context.Context, o metav1.ListOptions) (*unstructured.UnstructuredList, error) {
	return r.st.list(ctx, r.gvr, o, func() (*unstructured.UnstructuredList, error) { return r.NamespaceableResourceInterface.List(ctx, o) })
}
func (r *pagingNsRes) List(ctx context.Context, o metav1.ListOptions) (*unstructured.UnstructuredList, error) {
	return r.st.list(ctx, r.gvr, o, func() (*unstructured.UnstructuredList, error) { return r.ResourceInterface.List(ctx, o) })
}

func (s *pagingState) list(ctx context.Context, gvr schema.GroupVersionResource, o metav1.ListOptions, inner func() (*unstructured.UnstructuredList, error)) (*unstructured.UnstructuredList, error) {
	if gvr.Resource != "pods" {
		return inner()
	}
	if ctx.Err() != nil {
		return nil, ctx.Err() // never reaches the server
	}
	s.mu.Lock()
	s.served++
	n := s.served
	if !s.closedAt.IsZero() {
		s.late++
	}
	cb := s.onPage
	s.mu.Unlock()
	if cb != nil {
		cb(n)
	}
	select { // a slow page
	case <-time.After(20 * time.Millisecond):
	case <-ctx.Done():
		return nil, ctx.Err()
	}
	l, err := inner()
	if err != nil {
		return l, err
	}
	if n < s.pages {
		l.SetContinue(fmt.Sprintf("page-%d", n+1))
	}
	return l, nil
}

func runLateCase(in lateIn) (out lateOut) {
	defer func() {
		if r := recover(); r != nil {
			out.Panic = true
		}
	}()
	cl := newCluster([]kindInfo{kPod, kCM, kSvc, kDep, kRS, kNS})
	ctx, cancel := ctxWithCause()
	defer cancel()
	st := &pagingState{pages: in.Pages}
	st.onPage = func(n int) {
		if n == in.CancelAt {
			cancel()
		}
	}
	strat := watcher.RESTScopeNamespace
	if in.Scope == "root" {
		strat = watcher.RESTScopeRoot
	}
	w := watcher.NewDefaultStatusWatcher(&pagingClient{Interface: cl.client, st: st}, cl.mapper)
	ch := w.Watch(ctx, object.ObjMetadataSet{objSpec{kPod, "ns1", "a"}.id(), objSpec{kCM, "ns1", "c"}.id()}, watcher.Options{RESTScopeStrategy: strat})
	done := make(chan struct{})
	go func() {
		defer close(done)
		for range ch {
		}
	}()
	select {
	case <-done:
		out.Closed = true
	case <-time.After(6 * time.Second):
		cancel() // (already cancelled by the page hook; the channel simply never closed)
	}
	st.mu.Lock()
	st.closedAt = time.Now()
	st.mu.Unlock()
	time.Sleep(400 * time.Millisecond) // pages are 20 ms apart: an informer that lists on would show up many times over
	st.mu.Lock()
	out.LateLists = st.late
	st.mu.Unlock()
	return out
}

func genLate(out *proto.Out, _ *proto.Rng, _ string) {
	var ins []lateIn
	for _, scope := range []string{"root", "ns"} {
		for _, c := range []int{1, 2, 5} {
			ins = append(ins, lateIn{Scope: scope, Pages: 40, CancelAt: c})
		}
	}
	res := make([]lateOut, len(ins))
	var wg sync.WaitGroup
	for i := range ins {
		wg.Add(1)
		go func(i int) { defer wg.Done(); res[i] = runLateCase(ins[i]) }(i)
	}
	wg.Wait()
	for i := range ins {
		out.Emit("watcher-late", ins[i], res[i])
	}
}

func init() {
	register("watcher-late", domain{gen: genLate, run: func(raw json.RawMessage) (any, error) {
		var in lateIn
		if err := json.Unmarshal(raw, &in); err != nil {
			return nil, err
		}
		return runLateCase(in), nil
	}})
}

// ---------------------------------------------------------------------------------------------------------------------
// domain fatalseq: the errors the handlers of several informers hand to the reporter one after the other.  An informer that is
// stopped at run time (its namespace or CRD went away) can leave a handler in the middle of a status read, which then fails with the
// informer's context error: that is not a failure of the watch and must not use up the one error report the reporter has.

type fatalSeqIn struct {
	Errs []string `json:"errs"` // "ctx" | "deadline" | "wrapped-ctx" | "wrapped-deadline" | "real:<text>"
}

func fatalErrOf(k string) error {
	switch k {
	case "ctx":
		return context.Canceled
	case "deadline":
		return context.DeadlineExceeded
	case "wrapped-ctx":
		return fmt.Errorf("failed to compute object status: x: %w", context.Canceled)
	case "wrapped-deadline":
		return fmt.Errorf("failed to list replicasets: %w", context.DeadlineExceeded)
	}
	return errors.New(strings.TrimPrefix(k, "real:"))
}

func runFatalSeq(in fatalSeqIn) (out map[string]any) {
	defer func() {
		if r := recover(); r != nil {
			out = map[string]any{"panic": fmt.Sprint(r), "sent": []string{}, "stopped": false}
		}
	}()
	var errs []error
	for _, k := range in.Errs {
		errs = append(errs, fatalErrOf(k))
	}
	sent, stopped := watcher.VerifFatalSeq(errs)
	if sent == nil {
		sent = []string{}
	}
	return map[string]any{"panic": nil, "sent": sent, "stopped": stopped}
}

func init() {
	register("fatalseq", domain{gen: func(out *proto.Out, rng *proto.Rng, tier string) {
		kinds := []string{"ctx", "deadline", "wrapped-ctx", "wrapped-deadline", "real:forbidden", "real:boom"}
		// every sequence of length ≤ 3, then random longer ones
		var rec func(pre []string, n int)
		rec = func(pre []string, n int) {
			in := fatalSeqIn{Errs: append([]string{}, pre...)}
			out.Emit("fatalseq", in, runFatalSeq(in))
			if n == 0 {
				return
			}
			for _, k := range kinds {
				rec(append(pre, k), n-1)
			}
		}
		rec(nil, 3)
		for i := 0; i < 300; i++ {
			in := fatalSeqIn{Errs: []string{}}
			for k := 4 + rng.Intn(5); k > 0; k-- {
				in.Errs = append(in.Errs, proto.Pick(rng, kinds))
			}
			out.Emit("fatalseq", in, runFatalSeq(in))
		}
	}, run: func(raw json.RawMessage) (any, error) {
		var in fatalSeqIn
		if err := json.Unmarshal(raw, &in); err != nil {
			return nil, err
		}
		return runFatalSeq(in), nil
	}})
}
