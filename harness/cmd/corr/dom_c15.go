package main

import (
	"encoding/json"
	"fmt"
	"sort"

	"k8s.io/apimachinery/pkg/apis/meta/v1/unstructured"
	"sigs.k8s.io/cli-utils/pkg/inventory"
	"sigs.k8s.io/cli-utils/pkg/object"
	"sigs.k8s.io/cli-utils/pkg/object/dependson"
	"verif/harness/internal/proto"
)

// domain idstr: {"id":jid} -> String(), Parse(String()), or {"s":string} -> Parse(s)
type idstrIn struct {
	ID *jid    `json:"id,omitempty"`
	S  *string `json:"s,omitempty"`
}

func parseOut(s string) any {
	id, err := object.ParseObjMetadata(s)
	if err != nil {
		return nil
	}
	return toJid(id)
}

func runIdstr(in idstrIn) (out map[string]any) {
	defer func() {
		if r := recover(); r != nil {
			out = map[string]any{"panic": fmt.Sprint(r)}
		}
	}()
	if in.ID != nil {
		s := fromJid(*in.ID).String()
		return map[string]any{"str": s, "parsed": parseOut(s)}
	}
	return map[string]any{"parsed": parseOut(*in.S)}
}

// domain invstore: ids -> ConfigMap Store / GetObject / Load
type invstoreIn struct {
	IDs []jid `json:"ids"`
	// ids an EARLIER run stored in the same inventory object (the wrapper is then built around the populated object, as
	// the next run's client does); what Store accepts must not depend on it
	Prev []jid `json:"prev,omitempty"`
	// the empty set is handed over as a nil slice (the zero value of ObjMetadataSet) instead of an empty one
	NilSet bool `json:"nilSet,omitempty"`
}

func newInvCM() *unstructured.Unstructured {
	return &unstructured.Unstructured{Object: map[string]any{
		"apiVersion": "v1", "kind": "ConfigMap",
		"metadata": map[string]any{"name": "inv", "namespace": "ns", "labels": map[string]any{"cli-utils.sigs.k8s.io/inventory-id": "x"}},
	}}
}

func runInvstore(in invstoreIn) (out map[string]any) {
	defer func() {
		if r := recover(); r != nil {
			out = map[string]any{"panic": fmt.Sprint(r)}
		}
	}()
	cm := newInvCM()
	if len(in.Prev) > 0 {
		p := inventory.WrapInventoryObj(cm)
		if err := p.Store(fromJids(in.Prev), nil); err == nil {
			if o, err := p.GetObject(); err == nil {
				cm = o
			}
		}
	}
	st := inventory.WrapInventoryObj(cm)
	out = map[string]any{"storeErr": false, "keys": []string{}, "loadErr": false, "loaded": []jid{}}
	toStore := fromJids(in.IDs)
	if in.NilSet && len(toStore) == 0 {
		toStore = nil
	}
	if err := st.Store(toStore, nil); err != nil {
		out["storeErr"] = true
		return out
	}
	obj, err := st.GetObject()
	if err != nil {
		out["storeErr"] = true
		return out
	}
	data, _, _ := unstructured.NestedStringMap(obj.Object, "data")
	keys := make([]string, 0, len(data))
	for k := range data {
		keys = append(keys, k)
	}
	sort.Strings(keys)
	out["keys"] = keys
	loaded, err := inventory.WrapInventoryObj(obj).Load()
	// object.FromStringMap is the set-level reading of the same map: it must fail / succeed like Load and give the same set
	fsm, ferr := object.FromStringMap(data)
	out["fsmSame"] = (ferr != nil) == (err != nil) && (err != nil || fmt.Sprint(sortJids(toJids(fsm))) == fmt.Sprint(sortJids(toJids(loaded))))
	if err != nil {
		out["loadErr"] = true
		return out
	}
	out["loaded"] = sortJids(toJids(loaded))
	return out
}

// domain dep: {"id":jid} -> Format, Parse(Format) ; {"s":string} -> Parse ; {"ids":[…]} -> FormatDependencySet/ParseDependencySet
type depIn struct {
	ID  *jid    `json:"id,omitempty"`
	S   *string `json:"s,omitempty"`
	IDs []jid   `json:"ids,omitempty"`
	Set *string `json:"set,omitempty"`
}

func depParseOut(s string) any {
	id, err := dependson.ParseObjMetadata(s)
	if err != nil {
		return nil
	}
	return toJid(id)
}
func depSetParseOut(s string) any {
	ids, err := dependson.ParseDependencySet(s)
	if err != nil {
		return nil
	}
	return toJids(object.ObjMetadataSet(ids))
}

func runDep(in depIn) (out map[string]any) {
	defer func() {
		if r := recover(); r != nil {
			out = map[string]any{"panic": fmt.Sprint(r)}
		}
	}()
	switch {
	case in.ID != nil:
		s, err := dependson.FormatObjMetadata(fromJid(*in.ID))
		if err != nil {
			return map[string]any{"str": nil, "parsed": nil}
		}
		return map[string]any{"str": s, "parsed": depParseOut(s)}
	case in.S != nil:
		return map[string]any{"parsed": depParseOut(*in.S)}
	case in.Set != nil:
		return map[string]any{"parsedSet": depSetParseOut(*in.Set)}
	default:
		s, err := dependson.FormatDependencySet(dependson.DependencySet(fromJids(in.IDs)))
		if err != nil {
			return map[string]any{"str": nil, "parsedSet": nil}
		}
		return map[string]any{"str": s, "parsedSet": depSetParseOut(s)}
	}
}

func allStrings(alpha []string, maxLen int) []string {
	res := []string{""}
	prev := []string{""}
	for l := 1; l <= maxLen; l++ {
		var cur []string
		for _, p := range prev {
			for _, a := range alpha {
				cur = append(cur, p+a)
			}
		}
		res = append(res, cur...)
		prev = cur
	}
	return res
}

var c15Kinds = [][2]string{{"", "ConfigMap"}, {"rbac.authorization.k8s.io", "ClusterRole"}, {"rbac.authorization.k8s.io", "Role"}, {"apps", "Deployment"}, {"rbac.authorization.k8s.io", "Other"}, {"my_group.io", "My_Kind"}}

func init() {
	register("idstr", domain{
		gen: func(out *proto.Out, rng *proto.Rng, tier string) {
			maxLen := 4
			if tier == "thorough" {
				maxLen = 5
			}
			names := allStrings([]string{"a", "-", ".", ":", "_"}, maxLen)
			for _, n := range names {
				for ki, gk := range c15Kinds[:4] {
					for _, ns := range []string{"", "ns"} {
						if (ki == 1 && ns != "") || (ki == 2 && ns == "") {
							continue
						}
						j := jid{ns, n, gk[0], gk[1]}
						in := idstrIn{ID: &j}
						out.Emit("idstr", in, runIdstr(in))
					}
				}
			}
			// arbitrary fields, incl. separators in namespace/group/kind and unicode
			alpha := []string{"a", "b", "_", ":", "-", ".", "é", "__", "/"}
			rs := func(max int) string {
				s := ""
				for k := rng.Intn(max + 1); k > 0; k-- {
					s += proto.Pick(rng, alpha)
				}
				return s
			}
			n := 4000
			if tier == "thorough" {
				n = 60000
			}
			for i := 0; i < n; i++ {
				gk := proto.Pick(rng, c15Kinds)
				j := jid{rs(3), rs(6), gk[0], gk[1]}
				if rng.Chance(1, 5) {
					j[2], j[3] = rs(3), rs(3)
				}
				in := idstrIn{ID: &j}
				out.Emit("idstr", in, runIdstr(in))
			}
			// parse of arbitrary strings (stored keys written by someone else)
			pl := 6
			if tier == "thorough" {
				pl = 7
			}
			for _, s := range allStrings([]string{"a", "_", ":", "R"}, pl) {
				s := s
				in := idstrIn{S: &s}
				out.Emit("idstr", in, runIdstr(in))
			}
			for i := 0; i < n/2; i++ {
				s := rs(4) + "_" + rs(5) + "_" + proto.Pick(rng, []string{"", "rbac.authorization.k8s.io", "g"}) + "_" + proto.Pick(rng, []string{"Role", "ClusterRole", "K", ""})
				in := idstrIn{S: &s}
				out.Emit("idstr", in, runIdstr(in))
			}
		},
		run: func(raw json.RawMessage) (any, error) {
			var in idstrIn
			if err := json.Unmarshal(raw, &in); err != nil {
				return nil, err
			}
			return runIdstr(in), nil
		},
	})
	register("invstore", domain{
		gen: func(out *proto.Out, rng *proto.Rng, tier string) {
			names := allStrings([]string{"a", ":", "_"}, 3)
			var pool []jid
			for _, n := range names {
				if n == "" {
					continue
				}
				pool = append(pool, jid{"", n, "rbac.authorization.k8s.io", "ClusterRole"}, jid{"ns", n, "", "ConfigMap"})
			}
			pool = append(pool, jid{"n_s", "a", "", "ConfigMap"}, jid{"ns", "a", "my_group.io", "Kind"}, jid{"ns", "a", "g", "My_Kind"})
			// every single id and every pair from the pool (pairs: collisions such as a__b vs a:b)
			for _, a := range pool {
				in := invstoreIn{IDs: []jid{a}}
				out.Emit("invstore", in, runInvstore(in))
				// the empty set over an inventory an earlier run populated, as an empty and as a nil slice
				for _, nilSet := range []bool{false, true} {
					in = invstoreIn{IDs: []jid{}, Prev: []jid{a}, NilSet: nilSet}
					out.Emit("invstore", in, runInvstore(in))
				}
			}
			for i, a := range pool {
				for k, b := range pool {
					// pairs of distinct ids with the same key are always run
					sameKey := i != k && fromJids([]jid{a})[0].String() == fromJids([]jid{b})[0].String()
					if tier != "thorough" && (i*31+k)%5 != 0 && !sameKey {
						continue
					}
					in := invstoreIn{IDs: []jid{a, b}}
					out.Emit("invstore", in, runInvstore(in))
					// b (and a+b) stored into the object an earlier run populated with a
					in = invstoreIn{IDs: []jid{b}, Prev: []jid{a}}
					out.Emit("invstore", in, runInvstore(in))
					in = invstoreIn{IDs: []jid{a, b}, Prev: []jid{a}}
					out.Emit("invstore", in, runInvstore(in))
				}
			}
			n := 2000
			if tier == "thorough" {
				n = 30000
			}
			for i := 0; i < n; i++ {
				in := invstoreIn{IDs: []jid{}}
				for k := rng.Intn(7); k > 0; k-- {
					if rng.Chance(4, 5) {
						// mostly valid ids
						in.IDs = append(in.IDs, jid{proto.Pick(rng, []string{"", "ns", "other"}), proto.Pick(rng, []string{"a", "b", "sys:x", "x:y:z", "a.b-c"}), proto.Pick(rng, c15Kinds[:4])[0], proto.Pick(rng, c15Kinds[:4])[1]})
					} else {
						in.IDs = append(in.IDs, proto.Pick(rng, pool))
					}
				}
				if rng.Chance(1, 3) {
					for k := 1 + rng.Intn(3); k > 0; k-- {
						in.Prev = append(in.Prev, proto.Pick(rng, pool))
					}
				}
				in.NilSet = len(in.IDs) == 0 && rng.Bool()
				out.Emit("invstore", in, runInvstore(in))
			}
		},
		run: func(raw json.RawMessage) (any, error) {
			var in invstoreIn
			if err := json.Unmarshal(raw, &in); err != nil {
				return nil, err
			}
			return runInvstore(in), nil
		},
	})
	register("dep", domain{
		gen: func(out *proto.Out, rng *proto.Rng, tier string) {
			maxLen := 3
			if tier == "thorough" {
				maxLen = 4
			}
			names := allStrings([]string{"a", ":", "/", ",", " ", "_"}, maxLen)
			for _, n := range names {
				for _, gk := range c15Kinds[:4] {
					for _, ns := range []string{"", "ns", "namespaces"} {
						j := jid{ns, n, gk[0], gk[1]}
						in := depIn{ID: &j}
						out.Emit("dep", in, runDep(in))
					}
				}
			}
			strs := allStrings([]string{"a", "/", "namespaces", " ", ","}, 6)
			for i, s := range strs {
				s := s
				if tier != "thorough" && i%3 != 0 && len(s) > 8 {
					continue
				}
				in := depIn{S: &s}
				out.Emit("dep", in, runDep(in))
				if i%4 == 0 {
					in2 := depIn{Set: &s}
					out.Emit("dep", in2, runDep(in2))
				}
			}
			n := 2000
			if tier == "thorough" {
				n = 30000
			}
			for i := 0; i < n; i++ {
				var ids []jid
				for k := 1 + rng.Intn(4); k > 0; k-- {
					gk := proto.Pick(rng, c15Kinds[:4])
					ids = append(ids, jid{proto.Pick(rng, []string{"", "ns", "default"}), proto.Pick(rng, []string{"a", "sys:b", "web", "x_y", "", "a,b", " a"}), gk[0], proto.Pick(rng, []string{gk[1], gk[1], gk[1], ""})})
				}
				in := depIn{IDs: ids}
				out.Emit("dep", in, runDep(in))
			}
		},
		run: func(raw json.RawMessage) (any, error) {
			var in depIn
			if err := json.Unmarshal(raw, &in); err != nil {
				return nil, err
			}
			return runDep(in), nil
		},
	})
}
