// corr: correspondence harness.  `corr <domain> [args]` generates inputs (seeded by VERIF_SEED), calls the real
// cli-utils code of /repo in-process and prints one line per case: {"d":domain,"i":input,"o":impl-output}.
// `corr replay <file>` re-executes the inputs found in a file of such lines (the "o" is recomputed).
package main

import (
	"bufio"
	"context"
	"encoding/json"
	"errors"
	"flag"
	"fmt"
	"io"
	"os"
	"sort"

	"k8s.io/klog/v2"
	"verif/harness/internal/proto"
)

func init() {
	// the library logs through klog; keep stderr for the harness itself
	fs := flag.NewFlagSet("klog", flag.ContinueOnError)
	klog.InitFlags(fs)
	_ = fs.Set("logtostderr", "false")
	_ = fs.Set("alsologtostderr", "false")
	_ = fs.Set("stderrthreshold", "FATAL")
	klog.SetOutput(io.Discard)
}

// A domain generates cases and can re-run one input.
type domain struct {
	gen func(out *proto.Out, rng *proto.Rng, tier string)
	run func(in json.RawMessage) (any, error)
}

var domains = map[string]domain{}

func register(name string, d domain) { domains[name] = d }

// ctxWithCause: a caller's context that is cancelled WITH A CAUSE of its own — ctx.Err() is context.Canceled as ever,
// context.Cause(ctx) is the caller's private error, which the library must not report in place of the context error.
func ctxWithCause() (context.Context, context.CancelFunc) {
	c, cc := context.WithCancelCause(context.Background())
	return c, func() { cc(errors.New("the caller gave up (custom cause)")) }
}

func main() {
	if len(os.Args) < 2 {
		names := []string{}
		for n := range domains {
			names = append(names, n)
		}
		sort.Strings(names)
		fmt.Fprintf(os.Stderr, "usage: corr <domain>|replay <file>; domains: %v\n", names)
		os.Exit(2)
	}
	out := proto.NewOut()
	defer out.Flush()
	if os.Args[1] == "replay" {
		f, err := os.Open(os.Args[2])
		if err != nil {
			fmt.Fprintln(os.Stderr, err)
			os.Exit(2)
		}
		defer f.Close()
		sc := bufio.NewScanner(f)
		sc.Buffer(make([]byte, 1<<20), 1<<28)
		for sc.Scan() {
			line := sc.Bytes()
			if len(line) == 0 || line[0] != '{' {
				continue
			}
			var c struct {
				D string          `json:"d"`
				I json.RawMessage `json:"i"`
			}
			if err := json.Unmarshal(line, &c); err != nil || c.D == "" {
				continue
			}
			d, ok := domains[c.D]
			if !ok {
				fmt.Fprintf(os.Stderr, "unknown domain %q\n", c.D)
				os.Exit(2)
			}
			o, err := d.run(c.I)
			if err != nil {
				fmt.Fprintf(os.Stderr, "replay %s: %v\n", c.D, err)
				os.Exit(2)
			}
			out.Emit(c.D, c.I, o)
		}
		return
	}
	d, ok := domains[os.Args[1]]
	if !ok {
		fmt.Fprintf(os.Stderr, "unknown domain %q\n", os.Args[1])
		os.Exit(2)
	}
	d.gen(out, proto.NewRng(proto.Seed()), proto.Tier())
}
