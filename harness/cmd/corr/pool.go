package main

// Crash isolation for whole-run cases: the library runs its tasks and watchers on goroutines of its own, a panic there cannot
// be recovered by the harness and would take the process — and every result not yet written — down.  Cases are therefore run
// by worker processes (`corr sys-exec`: one input line in, one output line out); a worker that dies is reported as the
// outcome of the case it was running ({"crash": …, "runs": []}) and replaced.

import (
	"bufio"
	"bytes"
	"encoding/json"
	"fmt"
	"io"
	"os"
	"os/exec"
	"sync"
	"time"
)

type sysWorker struct {
	cmd    *exec.Cmd
	in     io.WriteCloser
	out    *bufio.Reader
	stderr *bytes.Buffer
}

func startSysWorker() (*sysWorker, error) {
	exe, err := os.Executable()
	if err != nil {
		return nil, err
	}
	cmd := exec.Command(exe, "sys-exec")
	w := &sysWorker{cmd: cmd, stderr: &bytes.Buffer{}}
	cmd.Stderr = w.stderr
	if w.in, err = cmd.StdinPipe(); err != nil {
		return nil, err
	}
	outp, err := cmd.StdoutPipe()
	if err != nil {
		return nil, err
	}
	w.out = bufio.NewReaderSize(outp, 1<<20)
	if err := cmd.Start(); err != nil {
		return nil, err
	}
	return w, nil
}

func (w *sysWorker) stop() {
	w.in.Close()
	w.cmd.Process.Kill()
	w.cmd.Wait()
}

// firstLines: the head of a crash trace ("panic: …" and the goroutine that panicked)
func firstLines(b []byte, n int) string {
	lines := bytes.SplitN(b, []byte("\n"), n+1)
	if len(lines) > n {
		lines = lines[:n]
	}
	return string(bytes.Join(lines, []byte(" | ")))
}

// runSysIsolated runs the cases on `par` worker processes and returns their outputs in order.
func runSysIsolated(cases []sysIn, par int) []map[string]any {
	res := make([]map[string]any, len(cases))
	if os.Getenv("VERIF_SYS_INPROC") != "" {
		for i := range cases {
			res[i] = runSys(cases[i])
		}
		return res
	}
	idx := make(chan int)
	var wg sync.WaitGroup
	for k := 0; k < par; k++ {
		wg.Add(1)
		go func() {
			defer wg.Done()
			var w *sysWorker
			defer func() {
				if w != nil {
					w.stop()
				}
			}()
			for i := range idx {
				if w == nil {
					var err error
					if w, err = startSysWorker(); err != nil {
						fmt.Fprintln(os.Stderr, "cannot start sys worker:", err)
						os.Exit(2)
					}
				}
				b, _ := json.Marshal(cases[i])
				t0 := time.Now()
				var line []byte
				_, err := w.in.Write(append(b, '\n'))
				if err == nil {
					line, err = w.out.ReadBytes('\n')
				}
				var o map[string]any
				if err == nil {
					err = json.Unmarshal(line, &o)
				}
				if err != nil {
					w.cmd.Wait()
					o = map[string]any{"crash": "the process running this history died: " + firstLines(w.stderr.Bytes(), 6), "runs": []any{}}
					w.stop()
					w = nil
				}
				res[i] = o
				if d := time.Since(t0); d > 3*time.Second && os.Getenv("VERIF_SLOW") != "" {
					fmt.Fprintf(os.Stderr, "slow case %d: %v\n", i, d)
				}
			}
		}()
	}
	for i := range cases {
		idx <- i
	}
	close(idx)
	wg.Wait()
	return res
}

func sysExecChild() {
	sc := bufio.NewScanner(os.Stdin)
	sc.Buffer(make([]byte, 1<<20), 1<<28)
	w := bufio.NewWriter(os.Stdout)
	for sc.Scan() {
		var in sysIn
		if err := json.Unmarshal(sc.Bytes(), &in); err != nil {
			fmt.Fprintln(os.Stderr, "sys-exec:", err)
			os.Exit(3)
		}
		b, _ := json.Marshal(runSys(in))
		w.Write(b)
		w.WriteByte('\n')
		w.Flush()
	}
}

func init() {
	if len(os.Args) > 1 && os.Args[1] == "sys-exec" {
		sysExecChild()
		os.Exit(0)
	}
}
