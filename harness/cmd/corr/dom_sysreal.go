package main

import (
	"encoding/json"
	"fmt"

	"verif/harness/internal/proto"
)

// domain sys-real: whole runs (Applier / Destroyer) with the library's REAL DefaultStatusWatcher — dynamic informers over the
// fake cluster's LIST and WATCH — instead of the scripted watcher of the `sys` domain.  What the watcher reports is then what
// kstatus computes for the stored objects: a ConfigMap / Secret / Namespace / ClusterRole is Current as soon as it exists, a
// Deployment without status never is (the wait phase ends by its timeout), a deleted object is NotFound unless a finalizer
// holds it (Terminating).  The `ctrl` / `del` scripts of the input DESCRIBE that behaviour for the model; nothing is scripted.
// No faults by request index, no dry-run (the library swaps in its own blind watcher), no status events in the stream.

var (
	soW   = sysObj{ID: jid{"ns1", "w", "apps", "Deployment"}}
	soW2  = sysObj{ID: jid{"ns2", "w2", "apps", "Deployment"}, Deps: []jid{{"ns2", "d", "", "ConfigMap"}}}
	soFoo = sysObj{ID: jid{"ns1", "foo", "example.com", "Foo"}} // a type nobody registered: invalid, and unwatchable
)

func realRun(kind string, objs []sysObj, opts sysOpts) sysRun {
	opts.Timeout = true
	r := sysRun{Kind: kind, Objs: objs, Opts: opts, Real: true, Ctrl: map[string]string{}}
	for _, o := range objs {
		if o.ID[3] == "Deployment" {
			r.Ctrl[idKey(o.ID)] = "never"
		}
	}
	return r
}

func cancelAt(r sysRun, k int) sysRun {
	r.Cancel = fmt.Sprintf("mut:%d", k)
	return r
}

func sysRealHistories() []sysIn {
	pre := []sysObj{soNs1, soNs2}
	fin := func(r sysRun, ids ...jid) sysRun {
		r.Del = map[string]string{}
		for _, id := range ids {
			r.Del[idKey(id)] = "finalizer"
		}
		return r
	}
	return []sysIn{
		{Pre: pre, Runs: []sysRun{realRun("apply", []sysObj{soA, soB, soD}, sysOpts{})}},
		{Pre: pre, Runs: []sysRun{realRun("apply", []sysObj{soA, soW}, sysOpts{})}},
		// an object of an unregistered type in the set handed to the watcher (SkipInvalid): its informer cannot be started
		{Pre: pre, Runs: []sysRun{realRun("apply", []sysObj{soA, soFoo}, sysOpts{SkipInvalid: true})}},
		{Pre: pre, Runs: []sysRun{realRun("apply", []sysObj{soA, soFoo, soW}, sysOpts{SkipInvalid: true}), realRun("apply", []sysObj{soA}, sysOpts{SkipInvalid: true})}},
		{Pre: pre, Runs: []sysRun{realRun("apply", []sysObj{soA, soB, soD}, sysOpts{}), realRun("apply", []sysObj{soA}, sysOpts{})}},
		{Pre: pre, Runs: []sysRun{realRun("apply", []sysObj{soA, soD, soR, soE}, sysOpts{}), realRun("destroy", nil, sysOpts{})}},
		{Pre: pre, Runs: []sysRun{realRun("apply", []sysObj{soA, soK, soL}, sysOpts{}), realRun("apply", []sysObj{soA}, sysOpts{})}},
		{Pre: pre, Runs: []sysRun{realRun("apply", []sysObj{soA, soD}, sysOpts{}), fin(realRun("apply", []sysObj{soA}, sysOpts{}), soD.ID)}},
		{Pre: pre, Runs: []sysRun{realRun("apply", []sysObj{soA, soM, soW2, soD}, sysOpts{SSA: true}), fin(realRun("destroy", nil, sysOpts{Foreground: true}), soA.ID)}},
		{Pre: pre, Runs: []sysRun{realRun("apply", []sysObj{soNs1, soA, soS, soK}, sysOpts{Policy: 2}), realRun("apply", []sysObj{}, sysOpts{})}},
		{Pre: pre, Runs: []sysRun{realRun("apply", []sysObj{}, sysOpts{})}},
		// a second attempt while the dependent of the first attempt is still Terminating (held by a finalizer): the watcher's FIRST
		// report of it is an object with a deletion timestamp — Terminating, not gone —, its dependency stays
		{Pre: pre, Runs: []sysRun{realRun("apply", []sysObj{soA, soB}, sysOpts{}), fin(realRun("destroy", nil, sysOpts{}), soB.ID), fin(realRun("destroy", nil, sysOpts{}), soB.ID)}},
		{Pre: pre, Runs: []sysRun{realRun("apply", []sysObj{soA, soB, soD}, sysOpts{}), fin(realRun("apply", []sysObj{soD}, sysOpts{}), soB.ID), fin(realRun("apply", []sysObj{soD}, sysOpts{}), soB.ID), realRun("destroy", nil, sysOpts{})}},
		{Pre: pre, Runs: []sysRun{realRun("apply", []sysObj{soD, soR, soE}, sysOpts{}), fin(realRun("destroy", nil, sysOpts{Foreground: true}), soE.ID), fin(realRun("destroy", nil, sysOpts{}), soE.ID)}},
		// the caller gives up while a request is in flight: the run ends with the context error, every WATCH stream is stopped
		{Pre: pre, Runs: []sysRun{cancelAt(realRun("apply", []sysObj{soA, soB, soD}, sysOpts{}), 1)}},
		{Pre: pre, Runs: []sysRun{cancelAt(realRun("apply", []sysObj{soA, soW}, sysOpts{}), 2), realRun("apply", []sysObj{soA, soW}, sysOpts{})}},
		{Pre: pre, Runs: []sysRun{realRun("apply", []sysObj{soA, soB, soD}, sysOpts{}), cancelAt(realRun("apply", []sysObj{soA}, sysOpts{}), 1), realRun("destroy", nil, sysOpts{})}},
	}
}

func genSysReal(out *proto.Out, rng *proto.Rng, tier string) {
	cases := sysRealHistories()
	n := 12
	if tier == "thorough" {
		n = 120
	}
	pool := []sysObj{soA, soB, soC, soD, soR, soK, soL, soS, soE, soM, soW, soW2, soNs2}
	for i := 0; i < n; i++ {
		in := sysIn{Pre: []sysObj{soNs1, soNs2}}
		// ids an earlier run of the history deleted under a finalizer: the object may still be there with its deletion timestamp, and
		// kstatus calls such an object Terminating whatever is applied to it — it is not applied again (a description "Current once it
		// exists" would be wrong for it)
		held := map[string]bool{}
		for r := 1 + rng.Intn(3); r > 0; r-- {
			if len(in.Runs) > 0 && rng.Chance(1, 5) {
				in.Runs = append(in.Runs, realRun("destroy", nil, sysOpts{Foreground: rng.Bool()}))
				continue
			}
			// a dependency-closed subset of the pool
			chosen := map[string]sysObj{}
			var add func(o sysObj)
			add = func(o sysObj) {
				if _, ok := chosen[idKey(o.ID)]; ok {
					return
				}
				chosen[idKey(o.ID)] = o
				for _, d := range append(append([]jid{}, o.Deps...), func() []jid {
					if o.MutFrom != nil {
						return []jid{*o.MutFrom}
					}
					return nil
				}()...) {
					for _, p := range pool {
						if p.ID == d {
							add(p)
						}
					}
				}
			}
			for k := rng.Intn(5); k > 0; k-- {
				add(proto.Pick(rng, pool))
			}
			var objs []sysObj
			for _, p := range pool {
				if o, ok := chosen[idKey(p.ID)]; ok {
					o.Rev = rng.Intn(2)
					objs = append(objs, o)
				}
			}
			for _, o := range objs {
				if held[idKey(o.ID)] {
					objs = nil // (dependents would dangle: the run applies nothing)
					break
				}
			}
			opts := sysOpts{SSA: rng.Bool(), Policy: rng.Intn(3), NoPrune: rng.Chance(1, 6)}
			if rng.Chance(1, 3) {
				opts.SkipInvalid = true
				objs = append(objs, soFoo)
			}
			run := realRun("apply", objs, opts)
			if rng.Chance(1, 4) {
				hk := idKey(proto.Pick(rng, pool).ID)
				run.Del = map[string]string{hk: "finalizer"}
				held[hk] = true
			}
			if rng.Chance(1, 6) {
				run = cancelAt(run, rng.Intn(4))
			}
			in.Runs = append(in.Runs, run)
		}
		cases = append(cases, in)
	}
	res := runSysIsolated(cases, 8)
	for i := range cases {
		out.Emit("sys-real", cases[i], res[i])
	}
}

func init() {
	register("sys-real", domain{gen: genSysReal, run: func(raw json.RawMessage) (any, error) {
		var in sysIn
		if err := json.Unmarshal(raw, &in); err != nil {
			return nil, err
		}
		return runSysIsolated([]sysIn{in}, 1)[0], nil
	}})
}
