package main

import (
	"verif/harness/internal/proto"
)

// catalogue of manifests the generator draws from
var (
	oNs1  = sysObj{ID: jid{"", "ns1", "", "Namespace"}}
	oA    = sysObj{ID: jid{"ns1", "a", "", "ConfigMap"}}
	oB    = sysObj{ID: jid{"ns1", "b", "", "ConfigMap"}, Deps: []jid{{"ns1", "a", "", "ConfigMap"}}}
	oC    = sysObj{ID: jid{"ns1", "c", "", "ConfigMap"}, Deps: []jid{{"ns1", "b", "", "ConfigMap"}}}
	oD    = sysObj{ID: jid{"ns2", "d", "", "ConfigMap"}}
	oR    = sysObj{ID: jid{"", "sys:r", "rbac.authorization.k8s.io", "ClusterRole"}}
	oK    = sysObj{ID: jid{"ns1", "k", "", "ConfigMap"}, Keep: true}
	oL    = sysObj{ID: jid{"ns1", "l", "", "ConfigMap"}, Detach: true}
	oS    = sysObj{ID: jid{"ns1", "s", "", "Secret"}, Deps: []jid{{"ns1", "k", "", "ConfigMap"}}}
	oNs2  = sysObj{ID: jid{"", "ns2", "", "Namespace"}}
	sysCatalogue = []sysObj{oNs1, oA, oB, oC, oD, oR, oK, oL, oS}
)

func genSys(out *proto.Out, rng *proto.Rng, tier string) {
	pre := []sysObj{oNs1, oNs2}
	// hand-written histories first
	hist := []sysIn{
		{Pre: pre, Runs: []sysRun{{Kind: "apply", Objs: []sysObj{oA, oB}}}},
		{Pre: pre, Runs: []sysRun{{Kind: "apply", Objs: []sysObj{oA, oB, oC}}, {Kind: "apply", Objs: []sysObj{oA}}, {Kind: "destroy"}}},
	}
	for _, h := range hist {
		out.Emit("sys", h, runSys(h))
	}
}
