package main

import (
	"encoding/json"
	"fmt"

	"verif/harness/internal/proto"
)

// catalogue of manifests the generator draws from
var (
	soNs1 = sysObj{ID: jid{"", "ns1", "", "Namespace"}}
	soNs2 = sysObj{ID: jid{"", "ns2", "", "Namespace"}}
	soA   = sysObj{ID: jid{"ns1", "a", "", "ConfigMap"}}
	soB   = sysObj{ID: jid{"ns1", "b", "", "ConfigMap"}, Deps: []jid{{"ns1", "a", "", "ConfigMap"}}}
	soC   = sysObj{ID: jid{"ns1", "c", "", "ConfigMap"}, Deps: []jid{{"ns1", "b", "", "ConfigMap"}}}
	soD   = sysObj{ID: jid{"ns2", "d", "", "ConfigMap"}}
	soR   = sysObj{ID: jid{"", "sys:r", "rbac.authorization.k8s.io", "ClusterRole"}}
	soK   = sysObj{ID: jid{"ns1", "k", "", "ConfigMap"}, Keep: true}
	soL   = sysObj{ID: jid{"ns1", "l", "", "ConfigMap"}, Detach: true}
	soS   = sysObj{ID: jid{"ns1", "s", "", "Secret"}, Deps: []jid{{"ns1", "k", "", "ConfigMap"}}}
	soE   = sysObj{ID: jid{"ns2", "e", "", "Secret"}, Deps: []jid{{"ns2", "d", "", "ConfigMap"}, {"", "sys:r", "rbac.authorization.k8s.io", "ClusterRole"}}}
	soM   = sysObj{ID: jid{"ns1", "m", "", "ConfigMap"}, MutFrom: &jid{"ns1", "a", "", "ConfigMap"}}

	// namesakes: the same kind and name in the other namespace
	soA2 = sysObj{ID: jid{"ns2", "a", "", "ConfigMap"}}
	soD1 = sysObj{ID: jid{"ns1", "d", "", "ConfigMap"}}

	sysCatalogue = []sysObj{soNs1, soNs2, soA, soB, soC, soD, soR, soK, soL, soS, soE, soM, soA2, soD1}
)

func sysInvalid(rng *proto.Rng) []sysObj {
	switch rng.Intn(15) {
	case 0: // missing name
		return []sysObj{{ID: jid{"ns1", "", "", "ConfigMap"}}}
	case 1: // namespaced kind without namespace
		return []sysObj{{ID: jid{"", "nons", "", "ConfigMap"}}}
	case 2: // cluster-scoped kind with namespace
		return []sysObj{{ID: jid{"ns1", "nsx", "", "Namespace"}}}
	case 3: // unknown type
		return []sysObj{{ID: jid{"ns1", "foo", "example.com", "Foo"}}}
	case 4: // malformed dependency reference
		return []sysObj{{ID: jid{"ns1", "bad", "", "ConfigMap"}, DepsRaw: proto.Pick(rng, []string{"not/a/valid/ref", "<empty>"})}}
	case 5: // external dependency
		return []sysObj{{ID: jid{"ns1", "ext", "", "ConfigMap"}, Deps: []jid{{"ns1", "absent", "", "ConfigMap"}}}}
	case 6: // duplicate dependency
		return []sysObj{{ID: jid{"ns1", "dup", "", "ConfigMap"}, Deps: []jid{{"ns1", "a", "", "ConfigMap"}, {"ns1", "a", "", "ConfigMap"}}}, soA}
	case 7: // cycle
		return []sysObj{
			{ID: jid{"ns1", "x", "", "ConfigMap"}, Deps: []jid{{"ns1", "y", "", "ConfigMap"}}},
			{ID: jid{"ns1", "y", "", "ConfigMap"}, Deps: []jid{{"ns1", "x", "", "ConfigMap"}}},
			{ID: jid{"ns1", "z", "", "ConfigMap"}, Deps: []jid{{"ns1", "x", "", "ConfigMap"}}}}
	// objects of the catalogue (which earlier runs of the history apply in their valid form, so that they are tracked)
	// turned invalid by their dependency annotation
	case 8: // b: malformed reference
		return []sysObj{{ID: soB.ID, DepsRaw: "not/a/valid/ref"}}
	case 9: // d: external dependency
		return []sysObj{{ID: soD.ID, Deps: []jid{{"ns1", "absent", "", "ConfigMap"}}}}
	case 10: // c: duplicate dependency
		return []sysObj{{ID: soC.ID, Deps: []jid{soB.ID, soB.ID}}, soB, soA}
	case 11: // s: malformed reference, its dependency k present
		return []sysObj{{ID: soS.ID, DepsRaw: "x//y"}, soK}
	case 13: // a <-> b cycle between tracked catalogue objects; c depends on b: behind the cycle, not on it
		return []sysObj{{ID: soA.ID, Deps: []jid{soB.ID}}, soB, soC}
	case 12: // m: mutation annotation with an external source listed before the in-set source a
		return []sysObj{{ID: soM.ID, MutFrom: soM.MutFrom, MutExt: true}}
	default: // missing kind
		return []sysObj{{ID: jid{"ns1", "nokind", "", ""}}}
	}
}

func boolInt(b bool) int {
	if b {
		return 1
	}
	return 0
}

func addObj(objs []sysObj, o sysObj) []sysObj {
	for _, x := range objs {
		if x.ID == o.ID {
			return objs
		}
	}
	return append(objs, o)
}

func genSysHistory(rng *proto.Rng) sysIn {
	in := sysIn{Pre: []sysObj{soNs2}}
	if rng.Chance(4, 5) {
		in.Pre = append(in.Pre, soNs1)
	}
	if rng.Chance(1, 4) {
		// objects somebody else created: unowned or owned by another inventory
		for k := 1 + rng.Intn(2); k > 0; k-- {
			o := proto.Pick(rng, sysCatalogue[2:])
			o.Owner = proto.Pick(rng, []string{"", "other-inv"})
			o.Rev = 7
			in.Pre = addObj(in.Pre, o)
		}
	}
	if rng.Chance(1, 12) {
		// the history starts with a stored inventory: one or two live objects of the catalogue it owns, and for each a namesake of
		// the same kind in an API group that is not registered (any more)
		for k := 1 + rng.Intn(2); k > 0; k-- {
			o := proto.Pick(rng, []sysObj{soA, soD, soS, soK, soE})
			o.Owner = sysInvID
			o.Deps = nil
			already := false
			for _, x := range in.Pre {
				already = already || x.ID == o.ID
			}
			if already {
				continue
			}
			in.Pre = append(in.Pre, o)
			twin := jid{o.ID[0], o.ID[1], proto.Pick(rng, []string{"example.com", "x.io"}), o.ID[3]}
			if rng.Bool() {
				in.PreInv = append(in.PreInv, twin, o.ID)
			} else {
				in.PreInv = append(in.PreInv, o.ID, twin)
			}
		}
	}
	nRuns := 1 + rng.Intn(3)
	for r := 0; r < nRuns; r++ {
		run := sysRun{Kind: "apply", Objs: []sysObj{}, Ctrl: map[string]string{}, Del: map[string]string{}}
		if (r == nRuns-1 && rng.Chance(1, 3)) || rng.Chance(1, 10) {
			run.Kind = "destroy"
		}
		if run.Kind == "apply" {
			n := 1 + rng.Intn(5)
			if rng.Chance(1, 12) {
				n = 0 // an empty apply set: everything tracked is pruned, the inventory is written empty
			}
			for k := 0; k < n; k++ {
				o := proto.Pick(rng, sysCatalogue[1:])
				if rng.Chance(1, 12) {
					o = soNs1
				}
				if rng.Chance(1, 3) {
					o.Rev = r + 1
				}
				if o.MutFrom != nil && rng.Chance(1, 4) {
					o.MutBad = true
				}
				if rng.Chance(1, 10) {
					// a manifest that already carries an owning-inventory annotation (exported from another installation, or from
					// this one): the run stamps its own id over it
					o.Owner = proto.Pick(rng, []string{"other-inv", "other-inv", sysInvID, ""})
				}
				run.Objs = addObj(run.Objs, o)
				// usually bring the dependencies along
				if rng.Chance(3, 4) {
					for _, d := range o.Deps {
						for _, c := range sysCatalogue {
							if c.ID == d {
								run.Objs = addObj(run.Objs, c)
							}
						}
					}
					if o.MutFrom != nil {
						run.Objs = addObj(run.Objs, soA)
					}
				}
			}
			if len(run.Objs) > 0 && rng.Chance(1, 12) {
				// the same id twice in one apply set (a kustomize output with an overridden copy): one object is applied — the last copy —
				// once, and it is tracked like any other
				dup := run.Objs[rng.Intn(len(run.Objs))]
				dup.Rev += 5
				run.Objs = append(run.Objs, dup)
			}
			if rng.Chance(1, 15) {
				// an id the inventory cannot store (its string form does not read back as the same id): the inventory task refuses
				// the whole set, nothing is applied
				run.Objs = addObj(run.Objs, proto.Pick(rng, []sysObj{
					{ID: jid{"ns1", "a_b", "", "ConfigMap"}},
					{ID: jid{"", "x__y", "rbac.authorization.k8s.io", "ClusterRole"}}}))
			}
			if rng.Chance(1, 4) {
				for _, o := range sysInvalid(rng) {
					// the invalid form replaces a valid form of the same object picked above
					for i := range run.Objs {
						if run.Objs[i].ID == o.ID && (o.DepsRaw != "" || len(o.Deps) != len(run.Objs[i].Deps) || o.MutExt) {
							run.Objs[i] = o
						}
					}
					run.Objs = addObj(run.Objs, o)
				}
			}
		}
		run.Opts = sysOpts{NoPrune: rng.Chance(1, 7), Policy: rng.Intn(3), SkipInvalid: rng.Chance(1, 2), SSA: rng.Chance(1, 5),
			EmitStatus: rng.Chance(1, 4), Foreground: rng.Chance(1, 5), StatusAll: rng.Chance(1, 4), PropDefault: rng.Chance(1, 2)}
		if rng.Chance(1, 7) {
			run.Opts.Dry = 1 + rng.Intn(2)
		}
		needTimeout := false
		for _, o := range sysCatalogue {
			k := idKey(o.ID)
			if rng.Chance(1, 5) {
				b := proto.Pick(rng, []string{"never", "stale", "failed", "failed-current", "replaced", "failed-stale"})
				run.Ctrl[k] = b
				// every scripted behaviour can leave an object pending: also a plain "failed", when the object was reported Current
				// before the sync event (it is reconciled at once, the Failed report then makes it pending again, for good)
				needTimeout = true
			}
			if rng.Chance(1, 7) {
				b := proto.Pick(rng, []string{"finalizer", "finalizer-gone", "replaced"})
				run.Del[k] = b
				if b == "finalizer" || b == "replaced" {
					needTimeout = true
				}
			} else if r > 0 && in.Runs[r-1].Del[k] == "finalizer" && rng.Chance(2, 3) {
				// an object stuck in deletion is usually still stuck when the next run comes
				run.Del[k] = "finalizer"
				needTimeout = true
			}
		}
		run.Opts.Timeout = needTimeout || rng.Chance(1, 6)
		switch rng.Intn(12) {
		case 0, 1, 2, 3:
			run.FailMut = []int{rng.Intn(8)}
		case 4:
			run.FailMut = []int{rng.Intn(5), 1 + rng.Intn(8)}
		case 5:
			run.FailInvRead = []int{rng.Intn(7)}
		case 6:
			if len(run.Objs) > 0 && rng.Chance(1, 2) {
				run.FailGet = []jid{proto.Pick(rng, run.Objs).ID}
			} else {
				run.FailGet = []jid{proto.Pick(rng, sysCatalogue[2:]).ID}
			}
		}
		run.InvAlt = rng.Chance(1, 8)
		if rng.Chance(1, 12) {
			// no REST client can be built for one kind: its objects fail at apply time, before any filter (prune uses another client)
			run.FailInfo = []string{proto.Pick(rng, []string{"ConfigMap", "Secret", "Namespace", "ClusterRole"})}
		}
		if len(run.FailMut)+len(run.FailGet)+len(run.FailInvRead) > 0 {
			run.FailCode = proto.Pick(rng, []int{0, 0, 403, 422, 409, 4091, 429, 503})
		}
		switch rng.Intn(16) {
		case 0:
			run.Cancel = "before-sync"
		case 1:
			run.Cancel = fmt.Sprintf("wait:%d:%d", rng.Intn(3), rng.Intn(2))
		case 2:
			run.Cancel = fmt.Sprintf("mut:%d", rng.Intn(6))
		case 3:
			run.WatchErr = fmt.Sprintf("wait:%d:%d", rng.Intn(3), rng.Intn(2))
		case 4:
			run.Cancel = fmt.Sprintf("wait:%d:end", rng.Intn(3))
		case 5:
			// the watcher fails while a mutating request is in flight (an uninterruptible phase)
			run.WatchErr = fmt.Sprintf("mut:%d", rng.Intn(6))
		case 6:
			// both, around the same phase: the cancellation first (same or earlier request) or the watcher's error first
			k := rng.Intn(5)
			run.Cancel = fmt.Sprintf("mut:%d", k)
			run.WatchErr = fmt.Sprintf("mut:%d", k+rng.Intn(3)-1+boolInt(k == 0))
		}
		if rng.Chance(1, 3) {
			for _, o := range sysCatalogue {
				if rng.Chance(1, 2) {
					run.Initial = append(run.Initial, o.ID)
				}
			}
		}
		if r > 0 && rng.Chance(1, 15) {
			run.EnvDel = []jid{proto.Pick(rng, sysCatalogue[2:]).ID}
		}
		in.Runs = append(in.Runs, run)
		// sometimes repeat the same apply without faults: fixpoint / convergence
		if run.Kind == "apply" && r < nRuns-1 && rng.Chance(1, 5) {
			rep := sysRun{Kind: "apply", Objs: run.Objs, Opts: run.Opts, Ctrl: map[string]string{}, Del: map[string]string{}}
			rep.Opts.Dry = 0
			in.Runs = append(in.Runs, rep)
			r++
		}
	}
	return in
}

func sysHandWritten() []sysIn {
	pre := []sysObj{soNs1, soNs2}
	return []sysIn{
		{Pre: pre, Runs: []sysRun{{Kind: "apply", Objs: []sysObj{soA, soB}}}},
		{Pre: pre, Runs: []sysRun{{Kind: "apply", Objs: []sysObj{soA, soB, soC}}, {Kind: "apply", Objs: []sysObj{soA}}, {Kind: "destroy"}}},
		{Pre: pre, Runs: []sysRun{{Kind: "apply", Objs: []sysObj{soA, soB, soK, soS}}, {Kind: "apply", Objs: []sysObj{soA}, Opts: sysOpts{NoPrune: true}}, {Kind: "apply", Objs: []sysObj{soA}}}},
		{Pre: pre, Runs: []sysRun{{Kind: "apply", Objs: []sysObj{soK, soS, soL}}, {Kind: "destroy"}}},
		{Pre: []sysObj{soNs2}, Runs: []sysRun{{Kind: "apply", Objs: []sysObj{soNs1, soA, soB}}, {Kind: "destroy"}}},
		// tracked objects whose manifest turns invalid (dependency annotation) in a later run that skips invalid objects
		{Pre: pre, Runs: []sysRun{{Kind: "apply", Objs: []sysObj{soA, soB}},
			{Kind: "apply", Objs: []sysObj{soA, {ID: soB.ID, DepsRaw: "not/a/valid/ref"}}, Opts: sysOpts{SkipInvalid: true}},
			{Kind: "apply", Objs: []sysObj{soA}}}},
		{Pre: pre, Runs: []sysRun{{Kind: "apply", Objs: []sysObj{soD, soA}},
			{Kind: "apply", Objs: []sysObj{{ID: soD.ID, Deps: []jid{{"ns1", "absent", "", "ConfigMap"}}}}, Opts: sysOpts{SkipInvalid: true}},
			{Kind: "destroy"}}},
		{Pre: pre, Runs: []sysRun{{Kind: "apply", Objs: []sysObj{soA, soB, soC}},
			{Kind: "apply", Objs: []sysObj{soA, soB, {ID: soC.ID, Deps: []jid{soB.ID, soB.ID}}}, Opts: sysOpts{SkipInvalid: true}}}},
		// a tracked chain a <- b <- c; later a gains a dependency on b (cycle a <-> b), c is behind the cycle: all three stay tracked
		{Pre: pre, Runs: []sysRun{{Kind: "apply", Objs: []sysObj{soA, soB, soC}},
			{Kind: "apply", Objs: []sysObj{{ID: soA.ID, Deps: []jid{soB.ID}}, soB, soC}, Opts: sysOpts{SkipInvalid: true}},
			{Kind: "destroy"}}},
		// an object of the inventory disappears behind the library's back; the destroy that follows deletes everything that exists
		{Pre: pre, Runs: []sysRun{{Kind: "apply", Objs: []sysObj{soA, soD}}, {Kind: "destroy", EnvDel: []jid{soD.ID}}}},
		// the stored inventory object was created under another template name than the one the destroy comes with
		{Pre: pre, Runs: []sysRun{{Kind: "apply", Objs: []sysObj{soA, soD}}, {Kind: "apply", Objs: []sysObj{soA}, InvAlt: true}, {Kind: "destroy", InvAlt: true}}},
		{Pre: pre, Runs: []sysRun{{Kind: "apply", Objs: []sysObj{soA}, InvAlt: true}, {Kind: "destroy"}}},
		// the planning-time read of a tracked dependent is refused (403): the run must stop, not go on without it
		{Pre: pre, Runs: []sysRun{{Kind: "apply", Objs: []sysObj{soA, soB}},
			{Kind: "destroy", FailGet: []jid{soB.ID}, FailCode: 403},
			{Kind: "apply", Objs: []sysObj{soD}, FailGet: []jid{soB.ID}, FailCode: 403}}},
		// m depends on a through its mutation annotation; later m's annotation gains an external source listed first (m becomes
		// invalid) while a is dropped from the apply set: a must not be pruned while m (still live, still depending on it) is skipped
		{Pre: pre, Runs: []sysRun{{Kind: "apply", Objs: []sysObj{soA, soM}},
			{Kind: "apply", Objs: []sysObj{{ID: soM.ID, MutFrom: soM.MutFrom, MutExt: true}}, Opts: sysOpts{SkipInvalid: true}},
			{Kind: "destroy"}}},
		// an object whose deletion hangs on a finalizer is still terminating when the next runs are planned: it stays tracked
		{Pre: pre, Runs: []sysRun{{Kind: "apply", Objs: []sysObj{soA, soD}},
			{Kind: "apply", Objs: []sysObj{soA}, Del: map[string]string{idKey(soD.ID): "finalizer"}, Opts: sysOpts{Timeout: true}},
			{Kind: "apply", Objs: []sysObj{soA}, Del: map[string]string{idKey(soD.ID): "finalizer"}, Opts: sysOpts{Timeout: true}},
			{Kind: "destroy", Del: map[string]string{idKey(soD.ID): "finalizer"}, Opts: sysOpts{Timeout: true}}}},
		{Pre: pre, Runs: []sysRun{{Kind: "apply", Objs: []sysObj{soA, soD}},
			{Kind: "destroy", Del: map[string]string{idKey(soD.ID): "finalizer"}, Opts: sysOpts{Timeout: true}},
			{Kind: "destroy", Del: map[string]string{idKey(soD.ID): "finalizer"}, Opts: sysOpts{Timeout: true}},
			{Kind: "apply", Objs: []sysObj{soA}, Del: map[string]string{idKey(soD.ID): "finalizer-gone"}, Opts: sysOpts{Timeout: true}}}},
		// cancellation and a fatal watcher error around the same uninterruptible phase, in both orders: the run ends with the
		// context error
		{Pre: pre, Runs: []sysRun{{Kind: "apply", Objs: []sysObj{soA, soB, soC}, Cancel: "mut:1", WatchErr: "mut:1"}}},
		{Pre: pre, Runs: []sysRun{{Kind: "apply", Objs: []sysObj{soA, soD}, Cancel: "mut:1", WatchErr: "mut:2"}}},
		{Pre: pre, Runs: []sysRun{{Kind: "apply", Objs: []sysObj{soA, soD}, Cancel: "mut:2", WatchErr: "mut:1"}}},
		{Pre: pre, Runs: []sysRun{{Kind: "apply", Objs: []sysObj{soA, soD}, WatchErr: "mut:1"}, {Kind: "destroy", Cancel: "mut:0", WatchErr: "mut:1"}}},
		// another client creates the inventory object between this run's lookup and its CREATE (409 AlreadyExists): the run stops
		{Pre: pre, Runs: []sysRun{{Kind: "apply", Objs: []sysObj{soA, soD}, FailMut: []int{0}, FailCode: 409},
			{Kind: "apply", Objs: []sysObj{soA}, FailMut: []int{1}, FailCode: 409}, {Kind: "destroy"}}},
		// manifests exported from another installation still carry its owning-inventory annotation
		{Pre: pre, Runs: []sysRun{{Kind: "apply", Objs: []sysObj{{ID: soA.ID, Owner: "other-inv"}, soD}}, {Kind: "apply", Objs: []sysObj{}}, {Kind: "destroy"}}},
		{Pre: pre, Runs: []sysRun{{Kind: "apply", Objs: []sysObj{{ID: soA.ID, Owner: "other-inv"}, {ID: soNs1.ID, Owner: "other-inv"}}, Opts: sysOpts{Policy: 0}}, {Kind: "destroy"}}},
		// the same in-memory manifest with an apply-time substitution is applied again after its source has changed
		{Pre: pre, Runs: []sysRun{{Kind: "apply", Objs: []sysObj{{ID: soA.ID, Rev: 1}, soM}}, {Kind: "apply", Objs: []sysObj{{ID: soA.ID, Rev: 2}, soM}},
			{Kind: "apply", Objs: []sysObj{{ID: soA.ID, Rev: 3}, soM}, Opts: sysOpts{SSA: true}}, {Kind: "destroy"}}},
		// tracked objects that are invalid in a later run stay in the stored inventory — also when the inventory records statuses
		// (an invalid object has no status record)
		{Pre: pre, Runs: []sysRun{{Kind: "apply", Objs: []sysObj{soA, soB}, Opts: sysOpts{StatusAll: true}},
			{Kind: "apply", Objs: []sysObj{soA, {ID: soB.ID, DepsRaw: "not/a/valid/ref"}}, Opts: sysOpts{SkipInvalid: true, StatusAll: true}},
			{Kind: "apply", Objs: []sysObj{soA, {ID: soB.ID, Deps: []jid{{"ns1", "absent", "", "ConfigMap"}}}}, Opts: sysOpts{SkipInvalid: true, StatusAll: true}},
			{Kind: "destroy", Opts: sysOpts{StatusAll: true}}}},
		{Pre: pre, Runs: []sysRun{{Kind: "apply", Objs: []sysObj{soA, soD}},
			{Kind: "destroy", Objs: []sysObj{}, Opts: sysOpts{StatusAll: true}, FailMut: []int{0}},
			{Kind: "apply", Objs: []sysObj{soA, {ID: soD.ID, Deps: []jid{{"ns1", "absent", "", "ConfigMap"}}}}, Opts: sysOpts{SkipInvalid: true, StatusAll: true, NoPrune: true}}}},
		// a DELETE answered 409 Conflict (the object was replaced under the run's feet) is a failed delete: what it depends on stays
		{Pre: pre, Runs: []sysRun{{Kind: "apply", Objs: []sysObj{soA, soB, soC}}, {Kind: "destroy", FailMut: []int{0}, FailCode: 4091},
			{Kind: "apply", Objs: []sysObj{soA}, FailMut: []int{1}, FailCode: 4091}, {Kind: "destroy", FailMut: []int{1}, FailCode: 4091}}},
		// a delete is rejected because the object was replaced under the run's feet (409 Conflict), and the watcher reports the new
		// object: what the replaced object depends on stays
		{Pre: pre, Runs: []sysRun{{Kind: "apply", Objs: []sysObj{soA, soB}}, {Kind: "destroy", FailMut: []int{0}, FailCode: 4091,
			Del: map[string]string{idKey(soB.ID): "replaced"}, Opts: sysOpts{Timeout: true}}, {Kind: "destroy", Opts: sysOpts{Timeout: true}}}},
		{Pre: pre, Runs: []sysRun{{Kind: "apply", Objs: []sysObj{soA, soB}}, {Kind: "apply", Objs: []sysObj{}, Del: map[string]string{idKey(soB.ID): "replaced", idKey(soA.ID): "replaced"}, Opts: sysOpts{Timeout: true}}}},
		// no REST client for Secrets in one run: they fail at apply time, everything else goes on; the next run applies them
		{Pre: pre, Runs: []sysRun{{Kind: "apply", Objs: []sysObj{soA, soK, soS}, FailInfo: []string{"Secret"}}, {Kind: "apply", Objs: []sysObj{soA, soK, soS}},
			{Kind: "apply", Objs: []sysObj{soA, soB}, FailInfo: []string{"ConfigMap"}, Opts: sysOpts{Timeout: true}}, {Kind: "destroy", FailInfo: []string{"ConfigMap"}}}},
		// the stored inventory tracks ids of a type that is not registered any more (its CRD is gone), next to same-named objects of
		// a registered type: the unregistered ones are skipped silently, everything else is pruned / deleted as usual
		{Pre: append([]sysObj{{ID: soS.ID, Owner: sysInvID}, {ID: soA.ID, Owner: sysInvID}, {ID: soK.ID, Owner: sysInvID}}, pre...),
			PreInv: []jid{{"ns1", "s", "example.com", "Secret"}, soS.ID, soA.ID, {"ns1", "a", "example.com", "ConfigMap"}, soK.ID, {"ns1", "foo", "example.com", "Foo"}},
			Runs:   []sysRun{{Kind: "apply", Objs: []sysObj{soA}}, {Kind: "destroy"}}},
		{Pre: append([]sysObj{{ID: soS.ID, Owner: sysInvID}, {ID: soD.ID, Owner: sysInvID}}, pre...),
			PreInv: []jid{soS.ID, {"ns1", "s", "example.com", "Secret"}, {"ns2", "d", "x.io", "ConfigMap"}, soD.ID},
			Runs:   []sysRun{{Kind: "destroy", Opts: sysOpts{StatusAll: true}}}},
		{Pre: append([]sysObj{{ID: soS.ID, Owner: sysInvID}, {ID: soD.ID, Owner: sysInvID}}, pre...),
			PreInv: []jid{{"ns2", "d", "x.io", "ConfigMap"}, {"ns1", "s", "example.com", "Secret"}, soD.ID, soS.ID},
			Runs:   []sysRun{{Kind: "apply", Objs: []sysObj{}}, {Kind: "apply", Objs: []sysObj{soD}}}},
		// the API server is overloaded (429 / 503) for one object of an apply group: the others of the group are still applied and
		// everything tracked stays tracked
		{Pre: pre, Runs: []sysRun{{Kind: "apply", Objs: []sysObj{soA, soD, soK}},
			{Kind: "apply", Objs: []sysObj{{ID: soA.ID, Rev: 2}, {ID: soD.ID, Rev: 2}, {ID: soK.ID, Keep: true, Rev: 2}}, FailMut: []int{0}, FailCode: 503},
			{Kind: "apply", Objs: []sysObj{{ID: soA.ID, Rev: 3}, {ID: soD.ID, Rev: 3}, {ID: soK.ID, Keep: true, Rev: 3}}, FailMut: []int{1}, FailCode: 429},
			{Kind: "apply", Objs: []sysObj{{ID: soA.ID, Rev: 4}, {ID: soD.ID, Rev: 4}, {ID: soK.ID, Keep: true, Rev: 4}}, FailMut: []int{0, 1}, FailCode: 429, Opts: sysOpts{StatusAll: true}}}},
		// the namespace that holds the inventory object is tracked and dropped from an apply set without any namespaced object: it
		// is still in use (the inventory lives there) and must not be deleted
		{Pre: []sysObj{soNs2}, Runs: []sysRun{{Kind: "apply", Objs: []sysObj{soNs1, soA}}, {Kind: "apply", Objs: []sysObj{}},
			{Kind: "apply", Objs: []sysObj{soR}}, {Kind: "apply", Objs: []sysObj{soNs2, soR}}}},
		// ids the inventory cannot store
		{Pre: pre, Runs: []sysRun{{Kind: "apply", Objs: []sysObj{soA, {ID: jid{"ns1", "a_b", "", "ConfigMap"}}}}, {Kind: "apply", Objs: []sysObj{soA}},
			{Kind: "apply", Objs: []sysObj{soA, {ID: jid{"", "x__y", "rbac.authorization.k8s.io", "ClusterRole"}}}, Opts: sysOpts{StatusAll: true}}, {Kind: "destroy"}}},
		// the same kind and name in two namespaces: every prune candidate is read from, filtered as and deleted in ITS OWN namespace;
		// a namesake elsewhere — unmanaged, or an object of the apply set — is none of the run's business
		{Pre: []sysObj{soNs1, soNs2, soD1, soA2}, Runs: []sysRun{{Kind: "apply", Objs: []sysObj{soA, soD}}, {Kind: "apply", Objs: []sysObj{}, Opts: sysOpts{Policy: 2}}}},
		{Pre: []sysObj{soNs1, soNs2, soD1, soA2}, Runs: []sysRun{{Kind: "apply", Objs: []sysObj{soA, soD}}, {Kind: "destroy", Opts: sysOpts{Policy: 1}}}},
		{Pre: []sysObj{soNs1, soNs2, soD1, soA2}, Runs: []sysRun{{Kind: "apply", Objs: []sysObj{soA, soD, soB}}, {Kind: "apply", Objs: []sysObj{soB, soA}, Opts: sysOpts{Policy: 2}}, {Kind: "destroy"}}},
		{Pre: pre, Runs: []sysRun{{Kind: "apply", Objs: []sysObj{soA, soB, soA2, soD, soD1}}, {Kind: "apply", Objs: []sysObj{soA, soD}}, {Kind: "apply", Objs: []sysObj{soA2}}}},
		{Pre: pre, Runs: []sysRun{{Kind: "apply", Objs: []sysObj{soA, soA2}}, {Kind: "destroy"}}},
		// a detach (keep / detach annotation) that was carried out — owning annotation removed — in a run whose final inventory write (or
		// whose destroy's inventory delete) failed: the next clean run finds the object tracked, annotated keep and ALREADY unowned; it
		// is still detached (dropped from the inventory), and a destroy still completes
		{Pre: pre, Runs: []sysRun{{Kind: "apply", Objs: []sysObj{soA, soK}}, {Kind: "apply", Objs: []sysObj{{ID: soA.ID, Rev: 1}}, FailMut: []int{2}}, {Kind: "apply", Objs: []sysObj{{ID: soA.ID, Rev: 1}}}, {Kind: "destroy"}}},
		{Pre: pre, Runs: []sysRun{{Kind: "apply", Objs: []sysObj{soA, soK}}, {Kind: "apply", Objs: []sysObj{{ID: soA.ID, Rev: 1}}, FailMut: []int{3}}, {Kind: "apply", Objs: []sysObj{{ID: soA.ID, Rev: 1}}}, {Kind: "destroy"}}},
		{Pre: pre, Runs: []sysRun{{Kind: "apply", Objs: []sysObj{soA, soL}}, {Kind: "apply", Objs: []sysObj{soA}, FailMut: []int{1}}, {Kind: "apply", Objs: []sysObj{soA}}, {Kind: "destroy"}}},
		{Pre: pre, Runs: []sysRun{{Kind: "apply", Objs: []sysObj{soA, soL}}, {Kind: "apply", Objs: []sysObj{soA}, FailMut: []int{2}}, {Kind: "apply", Objs: []sysObj{soA}}, {Kind: "destroy"}}},
		{Pre: pre, Runs: []sysRun{{Kind: "apply", Objs: []sysObj{soA, soK}}, {Kind: "destroy", FailMut: []int{2}}, {Kind: "destroy"}}},
		{Pre: pre, Runs: []sysRun{{Kind: "apply", Objs: []sysObj{soA, soK}}, {Kind: "destroy", FailMut: []int{1}}, {Kind: "destroy"}}},
		{Pre: pre, Runs: []sysRun{{Kind: "apply", Objs: []sysObj{soK, soL}}, {Kind: "destroy", FailMut: []int{2}}, {Kind: "destroy", FailMut: []int{0}}, {Kind: "destroy"}}},
		// a PATCH of an existing object that the server rejects as invalid (422) under client-side apply: a failed apply, nothing else —
		// in particular no delete-and-recreate of the object from inside the apply task
		{Pre: pre, Runs: []sysRun{{Kind: "apply", Objs: []sysObj{soA, soD}}, {Kind: "apply", Objs: []sysObj{{ID: soA.ID, Rev: 1}, soD}, FailMut: []int{0}, FailCode: 422}, {Kind: "apply", Objs: []sysObj{{ID: soA.ID, Rev: 1}, soD}}}},
		{Pre: pre, Runs: []sysRun{{Kind: "apply", Objs: []sysObj{soA, soD}}, {Kind: "apply", Objs: []sysObj{{ID: soA.ID, Rev: 2}, {ID: soD.ID, Rev: 2}}, FailMut: []int{1}, FailCode: 422}, {Kind: "destroy"}}},
		{Pre: pre, Runs: []sysRun{{Kind: "apply", Objs: []sysObj{soA}}, {Kind: "apply", Objs: []sysObj{{ID: soA.ID, Rev: 1}}, FailMut: []int{0}, FailCode: 409}, {Kind: "apply", Objs: []sysObj{{ID: soA.ID, Rev: 3}}, FailMut: []int{0}, FailCode: 403}}},
		// a depends-on annotation whose value is the empty string is malformed like any other text that is no reference
		{Pre: pre, Runs: []sysRun{{Kind: "apply", Objs: []sysObj{soA, {ID: soD.ID, DepsRaw: "<empty>"}}}}},
		{Pre: pre, Runs: []sysRun{{Kind: "apply", Objs: []sysObj{soA, soD}}, {Kind: "apply", Objs: []sysObj{soA, {ID: soD.ID, DepsRaw: "<empty>"}}, Opts: sysOpts{SkipInvalid: true}}, {Kind: "destroy"}}},
		// the last pending object of a wait phase turns out to have been replaced by somebody else (another UID) and NO timeout is
		// configured: the apply phase's wait ends at once (Failed), the run goes on and ends
		{Pre: pre, Runs: []sysRun{{Kind: "apply", Objs: []sysObj{soA}, Ctrl: map[string]string{idKey(soA.ID): "replaced"}}, {Kind: "destroy"}}},
		{Pre: pre, Runs: []sysRun{{Kind: "apply", Objs: []sysObj{soA, soD}, Ctrl: map[string]string{idKey(soD.ID): "replaced"}}, {Kind: "apply", Objs: []sysObj{soA, soD, soB}}}},
		// the same id twice in an apply set: applied once (the last copy); a rejected apply of it is ONE failed apply of a new object
		{Pre: pre, Runs: []sysRun{{Kind: "apply", Objs: []sysObj{soA, {ID: soA.ID, Rev: 1}}}, {Kind: "destroy"}}},
		{Pre: pre, Runs: []sysRun{{Kind: "apply", Objs: []sysObj{soA, soD, {ID: soA.ID, Rev: 1}}, FailMut: []int{2}}, {Kind: "destroy"}}},
		{Pre: pre, Runs: []sysRun{{Kind: "apply", Objs: []sysObj{soD, soA, {ID: soA.ID, Rev: 1}}, FailMut: []int{3}}, {Kind: "destroy"}}},
		{Pre: pre, Runs: []sysRun{{Kind: "apply", Objs: []sysObj{soA, {ID: soA.ID, Rev: 1}, soB}, FailMut: []int{2}, FailCode: 422}, {Kind: "apply", Objs: []sysObj{soA, soB}}, {Kind: "destroy"}}},
		// boundary: empty apply sets (nothing tracked yet; everything tracked pruned), destroy without an inventory
		{Pre: pre, Runs: []sysRun{{Kind: "apply", Objs: []sysObj{}}, {Kind: "apply", Objs: []sysObj{soA}}, {Kind: "apply", Objs: []sysObj{}}, {Kind: "destroy"}}},
		{Pre: pre, Runs: []sysRun{{Kind: "destroy"}}},
		{Pre: pre, Runs: []sysRun{{Kind: "apply", Objs: []sysObj{}, Opts: sysOpts{Dry: 1}}, {Kind: "apply", Objs: []sysObj{}, Opts: sysOpts{StatusAll: true}}}},
	}
}

func genSys(out *proto.Out, rng *proto.Rng, tier string) { genSysNamed("sys", out, rng, tier) }

func genSysNamed(name string, out *proto.Out, rng *proto.Rng, tier string) {
	cases := sysHandWritten()
	n := 500
	if tier == "thorough" {
		n = 8000
	}
	for i := 0; i < n; i++ {
		cases = append(cases, genSysHistory(rng))
	}
	res := runSysIsolated(cases, 16)
	for i := range cases {
		out.Emit(name, cases[i], res[i])
	}
}

// domain sync-race: the last run of each history is cancelled at the moment the watcher's sync event becomes ready, while the
// runner is kept busy forwarding a status event (Cancel "at-sync": needs EmitStatus and one live object in Initial).  Which of
// the two the runner's select takes is Go's choice, so every history is played several times; the driver accepts either
// behaviour of the model and checks what must hold in both (see Drv/Sys.lean handleSyncRace).
func syncRaceHistories() []sysIn {
	pre := []sysObj{soNs1, soNs2}
	at := func(kind string, objs []sysObj, init jid, opts sysOpts) sysRun {
		opts.EmitStatus = true
		return sysRun{Kind: kind, Objs: objs, Opts: opts, Initial: []jid{init}, Cancel: "at-sync"}
	}
	preA := sysObj{ID: soA.ID, Rev: 7}
	return []sysIn{
		{Pre: append([]sysObj{preA}, pre...), Runs: []sysRun{at("apply", []sysObj{soA}, soA.ID, sysOpts{Policy: 2})}},
		{Pre: append([]sysObj{preA}, pre...), Runs: []sysRun{at("apply", []sysObj{}, soA.ID, sysOpts{})}},
		{Pre: pre, Runs: []sysRun{{Kind: "apply", Objs: []sysObj{soA, soB}}, at("apply", []sysObj{soA}, soA.ID, sysOpts{})}},
		{Pre: pre, Runs: []sysRun{{Kind: "apply", Objs: []sysObj{soA, soD}}, at("destroy", nil, soA.ID, sysOpts{})}},
		{Pre: pre, Runs: []sysRun{{Kind: "apply", Objs: []sysObj{soA}}, at("apply", []sysObj{soA}, soA.ID, sysOpts{StatusAll: true})}},
		{Pre: pre, Runs: []sysRun{{Kind: "apply", Objs: []sysObj{soA, soK}}, at("apply", []sysObj{soA, soNs1}, soA.ID, sysOpts{NoPrune: true})}},
	}
}

func genSyncRace(out *proto.Out, _ *proto.Rng, tier string) {
	reps := 6
	if tier == "thorough" {
		reps = 40
	}
	var cases []sysIn
	for _, h := range syncRaceHistories() {
		for k := 0; k < reps; k++ {
			cases = append(cases, h)
		}
	}
	res := runSysIsolated(cases, 16)
	for i := range cases {
		out.Emit("sync-race", cases[i], res[i])
	}
}

// domain pre-cancel: dry-runs (the library then uses its own BlindStatusWatcher) started under a context that is ALREADY cancelled.
// The runner finds the cancellation and the watcher's sync event ready together, and after every task the cancellation and the
// task's result: how many tasks complete before it acts on the cancellation is Go's choice.  Whatever it is, the stream is a
// task-boundary prefix of the un-cancelled run followed by the context error (or nothing was started, or — the runner never
// looked — the complete run), the channel closes, nothing is changed.
func preCancelHistories() []sysIn {
	pre := []sysObj{soNs1, soNs2}
	var hs []sysIn
	for _, dry := range []int{1, 2} {
		pc := func(kind string, objs []sysObj, o sysOpts) sysRun {
			o.Dry = dry
			return sysRun{Kind: kind, Objs: objs, Opts: o, Cancel: "pre"}
		}
		hs = append(hs,
			sysIn{Pre: pre, Runs: []sysRun{pc("apply", []sysObj{soA, soB}, sysOpts{})}},
			sysIn{Pre: pre, Runs: []sysRun{pc("apply", []sysObj{}, sysOpts{})}},
			sysIn{Pre: pre, Runs: []sysRun{{Kind: "apply", Objs: []sysObj{soA, soB, soD}}, pc("apply", []sysObj{soA}, sysOpts{SSA: true})}},
			sysIn{Pre: pre, Runs: []sysRun{{Kind: "apply", Objs: []sysObj{soA, soD}}, pc("destroy", nil, sysOpts{})}},
			sysIn{Pre: pre, Runs: []sysRun{pc("destroy", nil, sysOpts{})}},
			sysIn{Pre: pre, Runs: []sysRun{{Kind: "apply", Objs: []sysObj{soA, soK}}, pc("apply", []sysObj{soA, soFooInvalid}, sysOpts{SkipInvalid: true})}},
		)
	}
	return hs
}

var soFooInvalid = sysObj{ID: jid{"ns1", "foo", "example.com", "Foo"}}

func genPreCancel(out *proto.Out, _ *proto.Rng, tier string) {
	reps := 5
	if tier == "thorough" {
		reps = 40
	}
	var cases []sysIn
	for _, h := range preCancelHistories() {
		for k := 0; k < reps; k++ {
			cases = append(cases, h)
		}
	}
	res := runSysIsolated(cases, 16)
	for i := range cases {
		out.Emit("pre-cancel", cases[i], res[i])
	}
}

func init() {
	register("pre-cancel", domain{gen: genPreCancel, run: func(raw json.RawMessage) (any, error) {
		var in sysIn
		if err := json.Unmarshal(raw, &in); err != nil {
			return nil, err
		}
		return runSysIsolated([]sysIn{in}, 1)[0], nil
	}})
	register("sync-race", domain{gen: genSyncRace, run: func(raw json.RawMessage) (any, error) {
		var in sysIn
		if err := json.Unmarshal(raw, &in); err != nil {
			return nil, err
		}
		return runSysIsolated([]sysIn{in}, 1)[0], nil
	}})
}
