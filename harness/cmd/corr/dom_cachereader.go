package main

// Domain cachereader (C17): the REAL clusterreader.NewCachingClusterReader(reader, mapper, identifiers) over a scripted
// client.Reader and a scripted RESTMapper, driven through a script of operations (sync / get / listns / listcluster).
//
// The scripted client.Reader is "the cluster": every sync operation of the script carries the cluster content, the mapper
// table and the per-(GroupKind, LIST namespace) outcome of the LIST requests of that Sync. LIST honours Limit / Continue
// of the list options (the real reader paginates through client-go's pager): an outcome may give the server a page size,
// make the k-th page request fail (other / NotFound / Expired / context error bare, *url.Error-wrapped, %w-wrapped / a real
// cancellation of the context), or cancel the context while the k-th page request succeeds.
//
// Output per operation (canonical): sync -> "ok" or an error class; get -> found (namespace, name, generation, sorted
// labels) or an error class; lists -> the items [namespace, name, generation] in the order returned, or an error class.
// Error classes are derived from the dynamic properties of the error only (errors.Is / errors.As / apierrors / meta), never
// from wording, with one exception: the reader's own "not found in cache" error has no other distinguishing property.

import (
	"context"
	"encoding/json"
	"errors"
	"fmt"
	"net/url"
	"sort"
	"strings"

	apierrors "k8s.io/apimachinery/pkg/api/errors"
	"k8s.io/apimachinery/pkg/api/meta"
	metav1 "k8s.io/apimachinery/pkg/apis/meta/v1"
	"k8s.io/apimachinery/pkg/apis/meta/v1/unstructured"
	"k8s.io/apimachinery/pkg/labels"
	"k8s.io/apimachinery/pkg/runtime/schema"
	"sigs.k8s.io/cli-utils/pkg/kstatus/polling/clusterreader"
	"sigs.k8s.io/controller-runtime/pkg/client"
	"verif/harness/internal/proto"
)

// ---------- script ----------

type crObj struct {
	G   string      `json:"g"`
	K   string      `json:"k"`
	NS  string      `json:"ns"`
	N   string      `json:"n"`
	Gen int64       `json:"gen"`
	L   [][2]string `json:"l"` // labels, distinct keys
}

// crList: the outcome of the LIST requests for (group, kind, LIST namespace) during one Sync. Unlisted = one page, ok.
type crList struct {
	G        string `json:"g"`
	K        string `json:"k"`
	NS       string `json:"ns"`
	Page     int    `json:"page"`     // server page size; 0 = as many as the request's Limit allows
	FailAt   int    `json:"failAt"`   // index of the page request that fails; -1 = none
	Fail     string `json:"fail"`     // other | notfound | expired | canceled | deadline | cancelreal
	Wrap     string `json:"wrap"`     // bare | url | fmtw   (context errors only)
	Text     string `json:"text"`     // identifies the scripted error
	CancelAt int    `json:"cancelAt"` // index of the page request during which the context is cancelled although it succeeds; -1 = none
	FbFail   bool   `json:"fbFail"`   // the full LIST the pager falls back to after "expired" fails too (text + "-fb")
}

type crSel struct {
	T string `json:"t"` // all | nothing | eq | neq | has
	K string `json:"k"`
	V string `json:"v"`
}

type crOp struct {
	Op string `json:"op"` // sync | get | listns | listcluster
	// sync
	Cluster []crObj     `json:"cluster,omitempty"`
	Scopes  [][3]string `json:"scopes,omitempty"` // [group, kind, ns|cluster|nomatch|err:<text>]; unlisted = nomatch. In force from this op on.
	Lists   []crList    `json:"lists,omitempty"`
	// reads
	G   string `json:"g"`
	K   string `json:"k"`
	NS  string `json:"ns"`
	N   string `json:"n"`
	Sel *crSel `json:"sel,omitempty"`
}

type crIn struct {
	IDs    []jid       `json:"ids"`
	Scopes [][3]string `json:"scopes"` // the mapper table before the first sync
	Ops    []crOp      `json:"ops"`
}

// ---------- scripted errors, mapper, reader ----------

// crErr is every error the script injects (LIST outcomes and mapper errors).
type crErr struct {
	text   string
	reason metav1.StatusReason
}

func (e *crErr) Error() string { return "scripted: " + e.text }
func (e *crErr) Status() metav1.Status {
	code := int32(500)
	switch e.reason {
	case metav1.StatusReasonNotFound:
		code = 404
	case metav1.StatusReasonExpired:
		code = 410
	}
	return metav1.Status{Status: metav1.StatusFailure, Reason: e.reason, Code: code}
}

type crMapper struct{ scopes map[schema.GroupKind]string }

func (m *crMapper) set(t [][3]string) {
	m.scopes = map[schema.GroupKind]string{}
	for i := len(t) - 1; i >= 0; i-- { // first entry for a GroupKind wins
		m.scopes[schema.GroupKind{Group: t[i][0], Kind: t[i][1]}] = t[i][2]
	}
}

func (m *crMapper) RESTMapping(gk schema.GroupKind, _ ...string) (*meta.RESTMapping, error) {
	sc, ok := m.scopes[gk]
	switch {
	case !ok || sc == "nomatch":
		return nil, &meta.NoKindMatchError{GroupKind: gk}
	case strings.HasPrefix(sc, "err:"):
		return nil, &crErr{text: sc[4:], reason: metav1.StatusReasonInternalError}
	}
	gvk := gk.WithVersion("v1")
	mp := &meta.RESTMapping{GroupVersionKind: gvk, Resource: gvk.GroupVersion().WithResource(strings.ToLower(gk.Kind) + "s")}
	if sc == "ns" {
		mp.Scope = meta.RESTScopeNamespace
	} else {
		mp.Scope = meta.RESTScopeRoot
	}
	return mp, nil
}
func (m *crMapper) KindFor(schema.GroupVersionResource) (schema.GroupVersionKind, error) {
	return schema.GroupVersionKind{}, errors.New("unused")
}
func (m *crMapper) KindsFor(schema.GroupVersionResource) ([]schema.GroupVersionKind, error) {
	return nil, errors.New("unused")
}
func (m *crMapper) ResourceFor(schema.GroupVersionResource) (schema.GroupVersionResource, error) {
	return schema.GroupVersionResource{}, errors.New("unused")
}
func (m *crMapper) ResourcesFor(schema.GroupVersionResource) ([]schema.GroupVersionResource, error) {
	return nil, errors.New("unused")
}
func (m *crMapper) RESTMappings(schema.GroupKind, ...string) ([]*meta.RESTMapping, error) {
	return nil, errors.New("unused")
}
func (m *crMapper) ResourceSingularizer(string) (string, error) { return "", errors.New("unused") }

// crReader is the cluster behind the caching reader.
type crReader struct {
	cur    *crOp // the sync operation in progress
	cancel context.CancelFunc
	lists  int
}

func (r *crReader) Get(context.Context, client.ObjectKey, client.Object, ...client.GetOption) error {
	return errors.New("the caching reader never GETs")
}

func crToUnstructured(o crObj) unstructured.Unstructured {
	u := unstructured.Unstructured{Object: map[string]any{}}
	u.SetGroupVersionKind(schema.GroupVersionKind{Group: o.G, Version: "v1", Kind: o.K})
	u.SetNamespace(o.NS)
	u.SetName(o.N)
	u.SetGeneration(o.Gen)
	if len(o.L) > 0 {
		l := map[string]string{}
		for i := len(o.L) - 1; i >= 0; i-- { // first entry for a key wins
			l[o.L[i][0]] = o.L[i][1]
		}
		u.SetLabels(l)
	}
	return u
}

func (r *crReader) List(ctx context.Context, list client.ObjectList, opts ...client.ListOption) error {
	r.lists++
	if r.cur == nil {
		return errors.New("LIST outside a Sync")
	}
	lo := (&client.ListOptions{}).ApplyOptions(opts)
	ul, ok := list.(*unstructured.UnstructuredList)
	if !ok {
		return fmt.Errorf("unexpected list type %T", list)
	}
	gvk := ul.GroupVersionKind()
	kind := strings.TrimSuffix(gvk.Kind, "List")
	var items []crObj
	for _, o := range r.cur.Cluster {
		if o.G == gvk.Group && o.K == kind && (lo.Namespace == "" || o.NS == lo.Namespace) {
			items = append(items, o)
		}
	}
	oc := crList{FailAt: -1, CancelAt: -1}
	for _, l := range r.cur.Lists {
		if l.G == gvk.Group && l.K == kind && l.NS == lo.Namespace {
			oc = l
			break
		}
	}
	fill := func(chunk []crObj, cont string) {
		ul.Items = make([]unstructured.Unstructured, 0, len(chunk))
		for _, o := range chunk {
			ul.Items = append(ul.Items, crToUnstructured(o))
		}
		ul.SetResourceVersion("1")
		ul.SetContinue(cont)
	}
	// the pager's fallback after "expired": everything, no limit
	if lo.Limit == 0 && lo.Continue == "" {
		if oc.FbFail {
			return &crErr{text: oc.Text + "-fb", reason: metav1.StatusReasonInternalError}
		}
		fill(items, "")
		return nil
	}
	off, idx := 0, 0
	if lo.Continue != "" {
		if _, err := fmt.Sscanf(lo.Continue, "c:%d:%d", &off, &idx); err != nil {
			return fmt.Errorf("bad continue token %q", lo.Continue)
		}
	}
	if oc.FailAt == idx {
		var err error
		switch oc.Fail {
		case "notfound":
			return &crErr{text: oc.Text, reason: metav1.StatusReasonNotFound}
		case "expired":
			return &crErr{text: oc.Text, reason: metav1.StatusReasonExpired}
		case "canceled":
			err = context.Canceled
		case "deadline":
			err = context.DeadlineExceeded
		case "cancelreal":
			r.cancel()
			err = ctx.Err()
		default:
			return &crErr{text: oc.Text, reason: metav1.StatusReasonInternalError}
		}
		switch oc.Wrap {
		case "url":
			return &url.Error{Op: "Get", URL: "https://cluster/api", Err: err}
		case "fmtw":
			return fmt.Errorf("list failed: %w", err)
		}
		return err
	}
	if oc.CancelAt == idx {
		r.cancel()
	}
	size := len(items)
	if lo.Limit > 0 && int(lo.Limit) < size {
		size = int(lo.Limit)
	}
	if oc.Page > 0 && oc.Page < size {
		size = oc.Page
	}
	if off > len(items) {
		off = len(items)
	}
	end := off + size
	if end >= len(items) {
		fill(items[off:], "")
		return nil
	}
	fill(items[off:end], fmt.Sprintf("c:%d:%d", end, idx+1))
	return nil
}

// crClass maps an error to its class.
func crClass(err error) string {
	if err == nil {
		return "ok"
	}
	if errors.Is(err, context.Canceled) {
		return "ctx:canceled"
	}
	if errors.Is(err, context.DeadlineExceeded) {
		return "ctx:deadline"
	}
	if meta.IsNoMatchError(err) {
		return "nomatch"
	}
	var ce *crErr
	if errors.As(err, &ce) {
		if apierrors.IsNotFound(err) {
			return "script-nf:" + ce.text
		}
		return "script:" + ce.text
	}
	if apierrors.IsNotFound(err) {
		return "notfound"
	}
	if strings.Contains(err.Error(), "not found in cache") {
		return "not-in-cache"
	}
	return "other"
}

func crSelector(s *crSel) (labels.Selector, error) {
	if s == nil {
		return labels.Everything(), nil
	}
	switch s.T {
	case "nothing":
		return labels.Nothing(), nil
	case "eq":
		return labels.Parse(s.K + "=" + s.V)
	case "neq":
		return labels.Parse(s.K + "!=" + s.V)
	case "has":
		return labels.Parse(s.K)
	}
	return labels.Everything(), nil
}

func runCacheReader(in crIn) (out map[string]any) {
	res := []map[string]any{}
	defer func() {
		if r := recover(); r != nil {
			out = map[string]any{"ctor": "ok", "res": res, "panic": fmt.Sprint(r)}
		}
	}()
	mp := &crMapper{}
	mp.set(in.Scopes)
	rd := &crReader{}
	cr, err := clusterreader.NewCachingClusterReader(rd, mp, fromJids(in.IDs))
	if err != nil {
		return map[string]any{"ctor": crClass(err), "res": res, "panic": nil}
	}
	for i := range in.Ops {
		op := &in.Ops[i]
		switch op.Op {
		case "sync":
			mp.set(op.Scopes)
			ctx, cancel := ctxWithCause()
			rd.cur, rd.cancel = op, cancel
			err := cr.Sync(ctx)
			rd.cur = nil
			cancel()
			res = append(res, map[string]any{"r": crClass(err)})
		case "get":
			obj := &unstructured.Unstructured{Object: map[string]any{}}
			obj.SetGroupVersionKind(schema.GroupVersionKind{Group: op.G, Version: "v1", Kind: op.K})
			err := cr.Get(context.Background(), client.ObjectKey{Namespace: op.NS, Name: op.N}, obj)
			if err != nil {
				res = append(res, map[string]any{"r": crClass(err)})
				break
			}
			ls := [][2]string{}
			for k, v := range obj.GetLabels() {
				ls = append(ls, [2]string{k, v})
			}
			sort.Slice(ls, func(a, b int) bool { return ls[a][0] < ls[b][0] })
			res = append(res, map[string]any{"r": "found", "ns": obj.GetNamespace(), "n": obj.GetName(), "gen": obj.GetGeneration(), "l": ls})
		case "listns", "listcluster":
			sel, err := crSelector(op.Sel)
			if err != nil {
				res = append(res, map[string]any{"r": "bad-selector"})
				break
			}
			list := &unstructured.UnstructuredList{}
			list.SetGroupVersionKind(schema.GroupVersionKind{Group: op.G, Version: "v1", Kind: op.K})
			// a stale item: the reader has to REPLACE the items of the list it is handed
			list.Items = []unstructured.Unstructured{crToUnstructured(crObj{G: op.G, K: op.K, NS: "stale", N: "stale"})}
			if op.Op == "listns" {
				err = cr.ListNamespaceScoped(context.Background(), list, op.NS, sel)
			} else {
				err = cr.ListClusterScoped(context.Background(), list, sel)
			}
			if err != nil {
				res = append(res, map[string]any{"r": crClass(err)})
				break
			}
			items := [][3]any{}
			for i := range list.Items {
				u := &list.Items[i]
				items = append(items, [3]any{u.GetNamespace(), u.GetName(), u.GetGeneration()})
			}
			res = append(res, map[string]any{"r": "items", "items": items})
		default:
			res = append(res, map[string]any{"r": "bad-op"})
		}
	}
	return map[string]any{"ctor": "ok", "res": res, "panic": nil}
}

// ---------- generator ----------

type crGK struct{ g, k string }

var (
	crDep  = crGK{"apps", "Deployment"}
	crRS   = crGK{"apps", "ReplicaSet"}
	crSTS  = crGK{"apps", "StatefulSet"}
	crPod  = crGK{"", "Pod"}
	crCM   = crGK{"", "ConfigMap"}
	crNsK  = crGK{"", "Namespace"}
	crWid  = crGK{"example.com", "Widget"}
	crGKs  = []crGK{crDep, crRS, crSTS, crPod, crCM, crNsK, crWid}
	crNSs  = []string{"ns1", "ns2"}
	crName = []string{"a", "ab", "b", "abc"}
)

func crDefaultScopes() [][3]string {
	return [][3]string{
		{"apps", "Deployment", "ns"}, {"apps", "ReplicaSet", "ns"}, {"apps", "StatefulSet", "ns"},
		{"", "Pod", "ns"}, {"", "ConfigMap", "ns"}, {"", "Namespace", "cluster"}, {"example.com", "Widget", "ns"},
	}
}

// crGen: the generated kinds as the generator believes them (used only to aim reads at interesting pairs)
func crGenOf(gk crGK) []crGK {
	switch gk {
	case crDep:
		return []crGK{crDep, crRS, crPod}
	case crRS:
		return []crGK{crRS, crPod}
	case crSTS:
		return []crGK{crSTS, crPod}
	}
	return []crGK{gk}
}

func crRandLabels(rng *proto.Rng) [][2]string {
	l := [][2]string{}
	if rng.Chance(2, 3) {
		l = append(l, [2]string{"app", proto.Pick(rng, []string{"x", "y"})})
	}
	if rng.Chance(1, 3) {
		l = append(l, [2]string{"tier", proto.Pick(rng, []string{"x", "y", ""})})
	}
	return l
}

type crPair struct {
	gk crGK
	ns string
}

func crPerturbScopes(rng *proto.Rng, base [][3]string) [][3]string {
	t := append([][3]string{}, base...)
	if rng.Chance(1, 5) {
		i := rng.Intn(len(t))
		switch rng.Intn(5) {
		case 0, 1:
			t[i][2] = "nomatch"
		case 2:
			t[i][2] = "err:mapper-" + t[i][1]
		case 3:
			if t[i][2] == "ns" {
				t[i][2] = "cluster"
			} else {
				t[i][2] = "ns"
			}
		default:
			t = append(t[:i], t[i+1:]...) // unlisted = nomatch
		}
	}
	return t
}

func crRandCluster(rng *proto.Rng, pairs []crPair, prev []crObj) []crObj {
	type key struct {
		gk     crGK
		ns, n string
	}
	seen := map[key]bool{}
	out := []crObj{}
	add := func(o crObj) {
		k := key{crGK{o.G, o.K}, o.NS, o.N}
		if !seen[k] {
			seen[k] = true
			out = append(out, o)
		}
	}
	// evolve the previous content
	if len(prev) > 0 && rng.Chance(3, 4) {
		for _, o := range prev {
			switch rng.Intn(6) {
			case 0: // deleted
				continue
			case 1:
				o.Gen++
			case 2:
				o.L = crRandLabels(rng)
			}
			add(o)
		}
	}
	n := rng.Intn(7)
	for i := 0; i < n; i++ {
		var gk crGK
		var ns string
		if len(pairs) > 0 && rng.Chance(4, 5) {
			p := proto.Pick(rng, pairs)
			gk, ns = p.gk, p.ns
			if ns == "" && gk != crNsK && rng.Chance(2, 3) {
				ns = proto.Pick(rng, crNSs)
			}
		} else {
			gk = proto.Pick(rng, crGKs)
			ns = proto.Pick(rng, crNSs)
		}
		if gk == crNsK {
			ns = ""
		}
		add(crObj{G: gk.g, K: gk.k, NS: ns, N: proto.Pick(rng, crName), Gen: int64(1 + rng.Intn(3)), L: crRandLabels(rng)})
	}
	return out
}

var crFailKinds = []string{"other", "other", "notfound", "expired", "canceled", "deadline", "cancelreal"}
var crWraps = []string{"bare", "url", "fmtw"}

func crRandLists(rng *proto.Rng, pairs []crPair, scopes [][3]string, k int, pErr int) []crList {
	out := []crList{}
	seen := map[crPair]bool{}
	for _, p := range pairs {
		// the LIST namespace: "" for root-scoped mappings
		ns := p.ns
		for _, s := range scopes {
			if s[0] == p.gk.g && s[1] == p.gk.k {
				if s[2] == "cluster" {
					ns = ""
				}
				break
			}
		}
		lp := crPair{p.gk, ns}
		if seen[lp] || !rng.Chance(1, 2) {
			continue
		}
		seen[lp] = true
		l := crList{G: p.gk.g, K: p.gk.k, NS: ns, FailAt: -1, CancelAt: -1, Wrap: "bare", Fail: "other",
			Text: fmt.Sprintf("list-%s-%s-%d", p.gk.k, ns, k)}
		l.Page = rng.Intn(4)
		if rng.Chance(pErr, 10) {
			l.FailAt = rng.Intn(3)
			if l.Page == 0 || rng.Chance(1, 2) {
				l.FailAt = 0
			}
			l.Fail = proto.Pick(rng, crFailKinds)
			l.Wrap = proto.Pick(rng, crWraps)
			l.FbFail = rng.Chance(1, 4)
			if l.Fail == "expired" && rng.Chance(2, 3) {
				l.Page, l.FailAt = 1, 1+rng.Intn(2) // Expired on a later page: the pager falls back to one full LIST
			}
		}
		if rng.Chance(1, 25) {
			l.CancelAt = rng.Intn(3)
		}
		out = append(out, l)
	}
	return out
}

func crRandSel(rng *proto.Rng) *crSel {
	switch rng.Intn(8) {
	case 0, 1:
		return &crSel{T: "all"}
	case 2, 3:
		return &crSel{T: "eq", K: "app", V: proto.Pick(rng, []string{"x", "y"})}
	case 4:
		return &crSel{T: "eq", K: "nobody", V: "has-this"}
	case 5:
		return &crSel{T: "neq", K: proto.Pick(rng, []string{"app", "tier"}), V: "x"}
	case 6:
		return &crSel{T: "has", K: proto.Pick(rng, []string{"app", "tier", "nobody"})}
	}
	return &crSel{T: "nothing"}
}

func crRandRead(rng *proto.Rng, pairs []crPair, cluster []crObj) crOp {
	var gk crGK
	var ns string
	switch {
	case len(pairs) > 0 && rng.Chance(3, 4):
		p := proto.Pick(rng, pairs)
		gk, ns = p.gk, p.ns
	case len(cluster) > 0 && rng.Chance(1, 2):
		o := proto.Pick(rng, cluster)
		gk, ns = crGK{o.G, o.K}, o.NS
	default:
		gk, ns = proto.Pick(rng, crGKs), proto.Pick(rng, []string{"ns1", "ns2", ""})
	}
	switch rng.Intn(5) {
	case 0, 1, 2:
		n := proto.Pick(rng, crName)
		if len(cluster) > 0 && rng.Chance(1, 2) {
			var cand []string
			for _, o := range cluster {
				if o.G == gk.g && o.K == gk.k {
					cand = append(cand, o.N)
				}
			}
			if len(cand) > 0 {
				n = proto.Pick(rng, cand)
			}
		}
		return crOp{Op: "get", G: gk.g, K: gk.k, NS: ns, N: n}
	case 3:
		return crOp{Op: "listns", G: gk.g, K: gk.k, NS: ns, Sel: crRandSel(rng)}
	}
	var root []crGK
	for _, p := range pairs {
		if p.ns == "" {
			root = append(root, p.gk)
		}
	}
	if len(root) > 0 && rng.Chance(3, 4) {
		gk = proto.Pick(rng, root)
	} else if rng.Chance(1, 2) {
		gk = proto.Pick(rng, []crGK{crNsK, crNsK, crPod, crDep})
	}
	return crOp{Op: "listcluster", G: gk.g, K: gk.k, Sel: crRandSel(rng)}
}

func crRandIDs(rng *proto.Rng) ([]jid, []crPair) {
	n := 1 + rng.Intn(3)
	ids := []jid{}
	pairs := []crPair{}
	seen := map[crPair]bool{}
	for i := 0; i < n; i++ {
		gk := proto.Pick(rng, crGKs)
		ns := proto.Pick(rng, crNSs)
		if gk == crNsK {
			ns = ""
			if rng.Chance(1, 8) {
				ns = "ns1" // a root-scoped kind identified with a namespace
			}
		} else if rng.Chance(1, 12) {
			ns = "" // a namespaced kind identified without a namespace
		}
		ids = append(ids, jid{ns, proto.Pick(rng, crName), gk.g, gk.k})
		for _, g := range crGenOf(gk) {
			p := crPair{g, ns}
			if !seen[p] {
				seen[p] = true
				pairs = append(pairs, p)
			}
		}
	}
	return ids, pairs
}

func crRandCase(rng *proto.Rng) crIn {
	ids, pairs := crRandIDs(rng)
	base := crDefaultScopes()
	if rng.Chance(1, 3) {
		for i := range base {
			if base[i][1] == "Widget" {
				base[i][2] = "nomatch" // the CRD is not installed yet
			}
		}
	}
	in := crIn{IDs: ids, Scopes: base, Ops: []crOp{}}
	var cluster []crObj
	if rng.Chance(1, 4) { // reads before the first Sync
		for i := rng.Intn(3); i >= 0; i-- {
			in.Ops = append(in.Ops, crRandRead(rng, pairs, nil))
		}
	}
	nSync := 1 + rng.Intn(4)
	for k := 0; k < nSync; k++ {
		cluster = crRandCluster(rng, pairs, cluster)
		scopes := crPerturbScopes(rng, base)
		if k > 0 && rng.Chance(1, 2) {
			for i := range scopes {
				if scopes[i][1] == "Widget" && scopes[i][2] == "nomatch" {
					scopes[i][2] = "ns" // the CRD got installed
				}
			}
		}
		pErr := 3
		if k > 0 {
			pErr = 5
		}
		in.Ops = append(in.Ops, crOp{Op: "sync", Cluster: cluster, Scopes: scopes, Lists: crRandLists(rng, pairs, scopes, k, pErr)})
		for i := 1 + rng.Intn(6); i > 0; i-- {
			in.Ops = append(in.Ops, crRandRead(rng, pairs, cluster))
		}
	}
	return in
}

// crGridCases: a fixed two-sync script (content A, then content B) in which one LIST of the SECOND sync is disturbed in
// every way; every tracked pair and a few untracked ones are read after each sync.
func crGridCases() []crIn {
	ids := []jid{{"ns1", "a", "apps", "Deployment"}, {"ns2", "b", "", "ConfigMap"}, {"", "ns1", "", "Namespace"}}
	A := []crObj{
		{G: "apps", K: "Deployment", NS: "ns1", N: "a", Gen: 1, L: [][2]string{{"app", "x"}}},
		{G: "apps", K: "ReplicaSet", NS: "ns1", N: "a", Gen: 1, L: [][2]string{{"app", "x"}}},
		{G: "", K: "Pod", NS: "ns1", N: "a", Gen: 1, L: [][2]string{{"app", "x"}}},
		{G: "", K: "Pod", NS: "ns1", N: "ab", Gen: 1, L: [][2]string{{"app", "y"}}},
		{G: "", K: "Pod", NS: "ns2", N: "b", Gen: 1, L: [][2]string{}},
		{G: "", K: "ConfigMap", NS: "ns2", N: "b", Gen: 1, L: [][2]string{}},
		{G: "", K: "Namespace", NS: "", N: "ns1", Gen: 1, L: [][2]string{}},
	}
	B := []crObj{
		{G: "apps", K: "Deployment", NS: "ns1", N: "a", Gen: 2, L: [][2]string{{"app", "x"}}},
		{G: "apps", K: "ReplicaSet", NS: "ns1", N: "ab", Gen: 1, L: [][2]string{{"app", "x"}}},
		{G: "", K: "Pod", NS: "ns1", N: "ab", Gen: 2, L: [][2]string{{"app", "x"}}},
		{G: "", K: "Pod", NS: "ns1", N: "abc", Gen: 1, L: [][2]string{{"app", "x"}}},
		{G: "", K: "Pod", NS: "ns1", N: "b", Gen: 1, L: [][2]string{{"app", "y"}}},
		{G: "", K: "ConfigMap", NS: "ns2", N: "a", Gen: 1, L: [][2]string{{"tier", "x"}}},
		{G: "", K: "Namespace", NS: "", N: "ns1", Gen: 1, L: [][2]string{}},
		{G: "", K: "Namespace", NS: "", N: "ns2", Gen: 1, L: [][2]string{}},
	}
	reads := []crOp{
		{Op: "get", G: "apps", K: "Deployment", NS: "ns1", N: "a"},
		{Op: "get", G: "apps", K: "ReplicaSet", NS: "ns1", N: "a"},
		{Op: "get", G: "", K: "Pod", NS: "ns1", N: "a"},
		{Op: "get", G: "", K: "Pod", NS: "ns1", N: "ab"},
		{Op: "get", G: "", K: "Pod", NS: "ns2", N: "b"},
		{Op: "get", G: "", K: "ConfigMap", NS: "ns2", N: "b"},
		{Op: "get", G: "", K: "ConfigMap", NS: "ns1", N: "b"},
		{Op: "get", G: "", K: "Namespace", NS: "", N: "ns2"},
		{Op: "listns", G: "", K: "Pod", NS: "ns1", Sel: &crSel{T: "all"}},
		{Op: "listns", G: "", K: "Pod", NS: "ns1", Sel: &crSel{T: "eq", K: "app", V: "x"}},
		{Op: "listns", G: "apps", K: "ReplicaSet", NS: "ns1", Sel: &crSel{T: "eq", K: "nobody", V: "has-this"}},
		{Op: "listns", G: "", K: "ConfigMap", NS: "ns2", Sel: &crSel{T: "all"}},
		{Op: "listcluster", G: "", K: "Namespace", Sel: &crSel{T: "all"}},
		{Op: "listcluster", G: "", K: "Pod", Sel: &crSel{T: "all"}},
	}
	targets := []crPair{{crDep, "ns1"}, {crRS, "ns1"}, {crPod, "ns1"}, {crCM, "ns2"}, {crNsK, ""}}
	var cases []crIn
	for _, t := range targets {
		for _, fail := range []string{"none", "other", "notfound", "expired", "canceled", "deadline", "cancelreal", "okcancel"} {
			for _, wrap := range crWraps {
				if wrap != "bare" && fail != "canceled" && fail != "deadline" && fail != "cancelreal" {
					continue
				}
				for _, page := range []int{0, 1, 2} {
					for _, at := range []int{0, 1} {
						if at == 1 && (page == 0 || fail == "none") {
							continue
						}
						l := crList{G: t.gk.g, K: t.gk.k, NS: t.ns, Page: page, FailAt: at, Fail: fail, Wrap: wrap,
							Text: "grid-" + t.gk.k, CancelAt: -1}
						switch fail {
						case "none":
							l.FailAt, l.Fail = -1, "other"
						case "okcancel":
							l.FailAt, l.Fail, l.CancelAt = -1, "other", at
						}
						ops := []crOp{{Op: "sync", Cluster: A, Scopes: crDefaultScopes(), Lists: []crList{}}}
						ops = append(ops, reads...)
						ops = append(ops, crOp{Op: "sync", Cluster: B, Scopes: crDefaultScopes(), Lists: []crList{l}})
						ops = append(ops, reads...)
						cases = append(cases, crIn{IDs: ids, Scopes: crDefaultScopes(), Ops: ops})
					}
				}
			}
		}
	}
	return cases
}

// crMiniCases: the smallest scripts that reach each branch — one identifier, a first Sync with content A, a second Sync with
// content B whose only LIST is disturbed in every way, one get and one list of the pair after it.
func crMiniCases() []crIn {
	type tgt struct {
		id jid
		sc [3]string
	}
	var cases []crIn
	for _, t := range []tgt{
		{jid{"ns1", "a", "", "ConfigMap"}, [3]string{"", "ConfigMap", "ns"}},
		{jid{"", "a", "", "Namespace"}, [3]string{"", "Namespace", "cluster"}},
	} {
		g, k, ns := t.id[2], t.id[3], t.id[0]
		A := []crObj{{G: g, K: k, NS: ns, N: "a", Gen: 1, L: [][2]string{{"app", "x"}}}, {G: g, K: k, NS: ns, N: "ab", Gen: 1, L: [][2]string{}}}
		B := []crObj{{G: g, K: k, NS: ns, N: "ab", Gen: 2, L: [][2]string{{"app", "x"}}}, {G: g, K: k, NS: ns, N: "b", Gen: 1, L: [][2]string{{"app", "y"}}}}
		sc := [][3]string{t.sc}
		reads := []crOp{{Op: "get", G: g, K: k, NS: ns, N: "a"}, {Op: "listns", G: g, K: k, NS: ns, Sel: &crSel{T: "eq", K: "app", V: "x"}}}
		for _, fail := range []string{"none", "other", "notfound", "expired", "canceled", "deadline", "cancelreal", "okcancel"} {
			for _, wrap := range crWraps {
				if wrap != "bare" && fail != "canceled" && fail != "deadline" && fail != "cancelreal" {
					continue
				}
				for _, page := range []int{0, 1} {
					for _, at := range []int{0, 1} {
						if at == 1 && (page == 0 || fail == "none") {
							continue
						}
						l := crList{G: g, K: k, NS: ns, Page: page, FailAt: at, Fail: fail, Wrap: wrap, Text: "mini", CancelAt: -1}
						switch fail {
						case "none":
							l.FailAt, l.Fail = -1, "other"
						case "okcancel":
							l.FailAt, l.Fail, l.CancelAt = -1, "other", at
						}
						ops := []crOp{{Op: "sync", Cluster: A, Scopes: sc}, {Op: "sync", Cluster: B, Scopes: sc, Lists: []crList{l}}}
						ops = append(ops, reads...)
						cases = append(cases, crIn{IDs: []jid{t.id}, Scopes: sc, Ops: ops})
						// the same disturbance on the FIRST Sync
						ops1 := []crOp{{Op: "sync", Cluster: A, Scopes: sc, Lists: []crList{l}}}
						ops1 = append(ops1, reads...)
						cases = append(cases, crIn{IDs: []jid{t.id}, Scopes: sc, Ops: ops1})
					}
				}
			}
		}
	}
	return cases
}

func genCacheReader(out *proto.Out, rng *proto.Rng, tier string) {
	for _, c := range crMiniCases() {
		out.Emit("cachereader", c, runCacheReader(c))
	}
	for _, c := range crGridCases() {
		out.Emit("cachereader", c, runCacheReader(c))
	}
	n := 6000
	if tier == "thorough" {
		n = 120000
	}
	for i := 0; i < n; i++ {
		c := crRandCase(rng)
		out.Emit("cachereader", c, runCacheReader(c))
	}
}

func init() {
	register("cachereader", domain{gen: genCacheReader, run: func(raw json.RawMessage) (any, error) {
		var in crIn
		if err := json.Unmarshal(raw, &in); err != nil {
			return nil, err
		}
		return runCacheReader(in), nil
	}})
}
