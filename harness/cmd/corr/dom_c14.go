package main

// C14: dependency sort.  Domain `graph`: the real graph.New/AddVertex/AddEdge/Sort/Dependencies,
// graph.HydrateSetList/ReverseSetList, and graph.DependencyGraph/SortObjs/ReverseSortObjs on unstructured objects
// whose depends-on annotations spell the same edges.  Every case carries two presentations of the same graph
// (vertex and edge order shuffled); the output holds the result for both.

import (
	"encoding/json"
	"errors"
	"fmt"
	"sort"

	"k8s.io/apimachinery/pkg/apis/meta/v1/unstructured"
	"sigs.k8s.io/cli-utils/pkg/multierror"
	"sigs.k8s.io/cli-utils/pkg/object"
	"sigs.k8s.io/cli-utils/pkg/object/dependson"
	"sigs.k8s.io/cli-utils/pkg/object/graph"
	"sigs.k8s.io/cli-utils/pkg/object/mutation"
	"sigs.k8s.io/cli-utils/pkg/object/validation"
	"verif/harness/internal/proto"
)

type c14GraphIn struct {
	U       []jid    `json:"u"`       // universe of ids; everything else is an index into it
	Vs      []int    `json:"vs"`      // AddVertex order (repeats allowed)
	Es      [][2]int `json:"es"`      // AddEdge order [from,to] (repeats allowed when objs=false)
	Vs2     []int    `json:"vs2"`     // second presentation: same vertices, other order
	Es2     [][2]int `json:"es2"`     // same edges, other order
	Present []int    `json:"present"` // ids that have an object in the HydrateSetList call
	Objs    bool     `json:"objs"`    // also run DependencyGraph/SortObjs/ReverseSortObjs (needs: endpoints in vs, no repeated edge)
	NoAnn   [][2]int `json:"noann"`   // edges of es that are NOT written into a depends-on annotation because DependencyGraph derives
	// them itself (object in namespace N -> Namespace object N); an implied edge that is absent here arrives through both edge builders
}

func c14MkUnstructured(id object.ObjMetadata) *unstructured.Unstructured {
	u := &unstructured.Unstructured{Object: map[string]any{}}
	// the API version is no part of an object's identity: objects of one group and kind come in several versions (by name), the
	// order must not depend on it
	h := 0
	for _, b := range []byte(id.Name) {
		h += int(b)
	}
	ver := []string{"v1", "v2", "v1beta1"}[h%3]
	if id.GroupKind.Group == "" {
		u.SetAPIVersion(ver)
	} else {
		u.SetAPIVersion(id.GroupKind.Group + "/" + ver)
	}
	u.SetKind(id.GroupKind.Kind)
	u.SetName(id.Name)
	if id.Namespace != "" {
		u.SetNamespace(id.Namespace)
	}
	return u
}

// c14IDIndex maps ids to their position in the case's universe (outputs name ids by index; -1 = not in the universe)
type c14IDIndex map[object.ObjMetadata]int

func c14NewIDIndex(ids object.ObjMetadataSet) c14IDIndex {
	m := c14IDIndex{}
	for i, id := range ids {
		if _, dup := m[id]; !dup {
			m[id] = i
		}
	}
	return m
}

func (m c14IDIndex) of(id object.ObjMetadata) int {
	if i, ok := m[id]; ok {
		return i
	}
	return -1
}

func (m c14IDIndex) ofSet(s object.ObjMetadataSet) []int {
	r := make([]int, 0, len(s))
	for _, id := range s {
		r = append(r, m.of(id))
	}
	return r
}

func (m c14IDIndex) ofObjs(objs object.UnstructuredSet) []int {
	r := make([]int, 0, len(objs))
	for _, o := range objs {
		r = append(r, m.of(object.UnstructuredToObjMetadata(o)))
	}
	return r
}

func (m c14IDIndex) ofObjLayers(l []object.UnstructuredSet) [][]int {
	r := make([][]int, 0, len(l))
	for _, s := range l {
		r = append(r, m.ofObjs(s))
	}
	return r
}

// c14SortErrInfo splits an error returned by Sort/SortObjs into the cyclic-dependency part and a count of anything else.
func c14SortErrInfo(ix c14IDIndex, err error) (cyc []int, cycEdges [][2]int, other int) {
	cyc, cycEdges = []int{}, [][2]int{}
	if err == nil {
		return
	}
	for _, e := range multierror.Unwrap(err) {
		var cde graph.CyclicDependencyError
		var ve *validation.Error
		if errors.As(e, &cde) && errors.As(e, &ve) {
			cyc = append(cyc, ix.ofSet(ve.Identifiers())...)
			for _, ed := range cde.Edges {
				cycEdges = append(cycEdges, [2]int{ix.of(ed.From), ix.of(ed.To)})
			}
		} else {
			other++
		}
	}
	return
}

func c14SameIDSet(a, b object.ObjMetadataSet) bool {
	return a.Equal(b) && len(a) == len(b)
}

func c14RunGraphOne(u []jid, vs []int, es [][2]int, present []int, objsMode bool, noAnn [][2]int) (out map[string]any) {
	defer func() {
		if r := recover(); r != nil {
			out = map[string]any{"panic": true, "msg": fmt.Sprint(r)}
		}
	}()
	ids := fromJids(u)
	ix := c14NewIDIndex(ids)
	out = map[string]any{"panic": false}
	g := graph.New()
	for _, v := range vs {
		g.AddVertex(ids[v])
	}
	for _, e := range es {
		g.AddEdge(ids[e[0]], ids[e[1]])
	}
	out["size"] = g.Size()
	layers, err := g.Sort()
	raw := make([][]int, 0, len(layers))
	for _, l := range layers {
		li := ix.ofSet(l)
		sort.Ints(li) // a layer comes out in map order: canonical form = ascending universe index
		raw = append(raw, li)
	}
	out["raw"] = raw
	cyc, cycEdges, other := c14SortErrInfo(ix, err)
	out["cyc"], out["cycEdges"], out["other"] = cyc, cycEdges, other
	// adjacency after Sort (Sort works on a copy)
	deps := make([][]int, 0, len(ids))
	for _, id := range ids {
		deps = append(deps, ix.ofSet(g.Dependencies(id)))
	}
	out["deps"] = deps
	// HydrateSetList with objects for `present` only, then ReverseSetList on a copy
	pobjs := object.UnstructuredSet{}
	for _, p := range present {
		pobjs = append(pobjs, c14MkUnstructured(ids[p]))
	}
	hyd := graph.HydrateSetList(layers, pobjs)
	out["hyd"] = ix.ofObjLayers(hyd)
	rev := make([]object.UnstructuredSet, 0, len(hyd))
	for _, s := range hyd {
		rev = append(rev, append(object.UnstructuredSet{}, s...))
	}
	graph.ReverseSetList(rev)
	out["rev"] = ix.ofObjLayers(rev)

	out["edgesOK"] = true
	out["sobj"], out["robj"] = nil, nil
	if objsMode {
		mk := func() object.UnstructuredSet {
			objs := object.UnstructuredSet{}
			for _, v := range vs {
				o := c14MkUnstructured(ids[v])
				ds := dependson.DependencySet{}
				for _, e := range es {
					skip := false
					for _, x := range noAnn {
						if x == e {
							skip = true
						}
					}
					if e[0] == v && !skip {
						ds = append(ds, ids[e[1]])
					}
				}
				if len(ds) > 0 {
					if err := dependson.WriteAnnotation(o, ds); err != nil {
						panic(err)
					}
				}
				objs = append(objs, o)
			}
			return objs
		}
		dg, derr := graph.DependencyGraph(mk())
		ok := derr == nil
		for i, id := range ids {
			want := object.ObjMetadataSet{}
			for _, e := range es {
				if e[0] == i {
					want = append(want, ids[e[1]])
				}
			}
			if !c14SameIDSet(dg.Dependencies(id), want) {
				ok = false
			}
		}
		out["edgesOK"] = ok
		pack := func(l []object.UnstructuredSet, err error) map[string]any {
			c, ce, o := c14SortErrInfo(ix, err)
			return map[string]any{"layers": ix.ofObjLayers(l), "cyc": c, "cycEdges": ce, "other": o}
		}
		out["sobj"] = pack(graph.SortObjs(mk()))
		out["robj"] = pack(graph.ReverseSortObjs(mk()))
	}
	return out
}

func c14RunGraph(in c14GraphIn) map[string]any {
	return map[string]any{
		"a": c14RunGraphOne(in.U, in.Vs, in.Es, in.Present, in.Objs, in.NoAnn),
		"b": c14RunGraphOne(in.U, in.Vs2, in.Es2, in.Present, in.Objs, in.NoAnn),
	}
}

// ---- generators ----

// kinds: every entry of ordering's orderFirst/orderLast, plus kinds outside the table; scope decides whether ids get a namespace
var c14Kinds = []struct {
	group, kind string
	namespaced  bool
}{
	{"", "Namespace", false},
	{"", "ResourceQuota", true},
	{"storage.k8s.io", "StorageClass", false},
	{"apiextensions.k8s.io", "CustomResourceDefinition", false},
	{"admissionregistration.k8s.io", "MutatingWebhookConfiguration", false},
	{"", "ServiceAccount", true},
	{"extensions", "PodSecurityPolicy", false},
	{"policy", "PodSecurityPolicy", false},
	{"rbac.authorization.k8s.io", "Role", true},
	{"rbac.authorization.k8s.io", "ClusterRole", false},
	{"rbac.authorization.k8s.io", "RoleBinding", true},
	{"rbac.authorization.k8s.io", "ClusterRoleBinding", false},
	{"", "ConfigMap", true},
	{"", "Secret", true},
	{"", "Service", true},
	{"", "LimitRange", true},
	{"scheduling.k8s.io", "PriorityClass", false},
	{"extensions", "Deployment", true},
	{"apps", "Deployment", true},
	{"apps", "StatefulSet", true},
	{"batch", "CronJob", true},
	{"policy", "PodDisruptionBudget", true},
	{"admissionregistration.k8s.io", "ValidatingWebhookConfiguration", false},
	// not in the table (index 0): ordered by group, then kind
	{"", "Pod", true},
	{"apps", "DaemonSet", true},
	{"batch", "Job", true},
	{"example.com", "Widget", true},
	{"example.com", "Deployment", true},
	{"a.example.com", "Zed", false},
}

// CRD objects carry no spec, so DependencyGraph adds no CRD edge in this domain.  A Namespace object may be named like
// a namespace in use: DependencyGraph then adds object -> Namespace edges itself; c14ImpliedEdges puts them into `es`.
var c14Namespaces = []string{"n1", "n2", "N1", "n10"}
var c14Names = []string{"a", "b", "c", "a-1", "B", "ab", "z9"}

func c14RandID(rng *proto.Rng, kinds int) jid {
	k := c14Kinds[rng.Intn(kinds)]
	ns := ""
	if k.namespaced {
		ns = proto.Pick(rng, c14Namespaces)
	}
	name := proto.Pick(rng, c14Names)
	if k.kind == "Namespace" && k.group == "" && rng.Bool() {
		name = proto.Pick(rng, c14Namespaces)
	}
	return jid{ns, name, k.group, k.kind}
}

// c14ImpliedEdges: the object -> Namespace edges addNamespaceEdges creates for the objects `vs`.
func c14ImpliedEdges(u []jid, vs []int) [][2]int {
	var r [][2]int
	nsObj := map[string]int{}
	for _, v := range vs {
		if u[v][2] == "" && u[v][3] == "Namespace" {
			nsObj[u[v][1]] = v
		}
	}
	seen := map[[2]int]bool{}
	for _, v := range vs {
		if u[v][0] != "" {
			if to, ok := nsObj[u[v][0]]; ok && !seen[[2]int{v, to}] {
				seen[[2]int{v, to}] = true
				r = append(r, [2]int{v, to})
			}
		}
	}
	return r
}

// c14CloseImplied adds the implied edges to es; each is either left to DependencyGraph alone (listed in noann) or
// additionally spelled in the depends-on annotation (so that it reaches AddEdge twice).
func c14CloseImplied(rng *proto.Rng, u []jid, vs []int, es [][2]int) (es2 [][2]int, noann [][2]int) {
	noann = [][2]int{}
	for _, ie := range c14ImpliedEdges(u, vs) {
		have := false
		for _, e := range es {
			if e == ie {
				have = true
			}
		}
		if !have {
			es = append(es, ie)
			if rng.Bool() {
				noann = append(noann, ie)
			}
		}
	}
	return es, noann
}

// c14Universe draws n distinct ids; `kinds` limits the kind table prefix used (small = many same-kind ids).
func c14Universe(rng *proto.Rng, n int) []jid {
	var kinds int
	switch rng.Intn(4) {
	case 0:
		kinds = 0 // single random kind
	case 1:
		kinds = 3
	default:
		kinds = len(c14Kinds)
	}
	one := rng.Intn(len(c14Kinds))
	seen := map[jid]bool{}
	u := make([]jid, 0, n)
	for tries := 0; len(u) < n && tries < 50*n+100; tries++ {
		var id jid
		if kinds == 0 {
			k := c14Kinds[one]
			ns := ""
			if k.namespaced {
				ns = proto.Pick(rng, c14Namespaces)
			}
			id = jid{ns, proto.Pick(rng, c14Names), k.group, k.kind}
			if tries > 10*n { // a cluster-scoped single kind has only 7 names
				id = c14RandID(rng, len(c14Kinds))
			}
		} else {
			id = c14RandID(rng, kinds)
			if tries > 10*n {
				id = c14RandID(rng, len(c14Kinds))
			}
		}
		if !seen[id] {
			seen[id] = true
			u = append(u, id)
		}
	}
	return u
}

func c14ShuffleInts(rng *proto.Rng, xs []int) []int {
	r := append([]int{}, xs...)
	for i := len(r) - 1; i > 0; i-- {
		j := rng.Intn(i + 1)
		r[i], r[j] = r[j], r[i]
	}
	return r
}

func c14ShuffleEdges(rng *proto.Rng, xs [][2]int) [][2]int {
	r := append([][2]int{}, xs...)
	for i := len(r) - 1; i > 0; i-- {
		j := rng.Intn(i + 1)
		r[i], r[j] = r[j], r[i]
	}
	return r
}

func c14PermsOf(n int) [][]int {
	if n == 0 {
		return [][]int{{}}
	}
	var res [][]int
	for _, p := range c14PermsOf(n - 1) {
		for pos := 0; pos <= len(p); pos++ {
			q := append([]int{}, p[:pos]...)
			q = append(q, n-1)
			q = append(q, p[pos:]...)
			res = append(res, q)
		}
	}
	return res
}

// fixed small universes for the exhaustive part: distinct kinds / same kind, other namespace / same kind+namespace, other name / mixed
var c14SmallUniverses = [][]jid{
	{{"n1", "a", "apps", "Deployment"}, {"n1", "a", "", "ConfigMap"}, {"", "a", "", "Namespace"}, {"", "a", "apiextensions.k8s.io", "CustomResourceDefinition"}},
	{{"n2", "a", "", "ConfigMap"}, {"n1", "b", "", "ConfigMap"}, {"n10", "a", "", "ConfigMap"}, {"N1", "c", "", "ConfigMap"}},
	{{"n1", "b", "example.com", "Widget"}, {"n1", "a", "example.com", "Widget"}, {"n1", "ab", "example.com", "Widget"}, {"n1", "B", "example.com", "Widget"}},
	{{"n1", "a", "", "Pod"}, {"", "x", "admissionregistration.k8s.io", "ValidatingWebhookConfiguration"}, {"n1", "a", "", "Secret"}, {"n1", "a", "batch", "Job"}},
	{{"n1", "a", "", "ConfigMap"}, {"", "n1", "", "Namespace"}, {"n1", "b", "apps", "Deployment"}, {"", "n2", "", "Namespace"}},
}

func c14AllIdx(n int) []int {
	r := make([]int, n)
	for i := range r {
		r[i] = i
	}
	return r
}

func c14GenGraph(out *proto.Out, rng *proto.Rng, tier string) {
	emit := func(in c14GraphIn) { out.Emit("graph", in, c14RunGraph(in)) }
	// 1. exhaustive: every digraph (self-loops included) on n labelled vertices
	maxN := 3
	if tier == "thorough" {
		maxN = 4
	}
	caseNo := 0
	for n := 0; n <= maxN; n++ {
		perms := c14PermsOf(n)
		for mask := 0; mask < 1<<(n*n); mask++ {
			var es [][2]int
			for a := 0; a < n; a++ {
				for b := 0; b < n; b++ {
					if mask&(1<<(a*n+b)) != 0 {
						es = append(es, [2]int{a, b})
					}
				}
			}
			reps := 3
			if n == 4 {
				reps = 1
			}
			for r := 0; r < reps; r++ {
				caseNo++
				u := c14SmallUniverses[caseNo%len(c14SmallUniverses)][:n]
				// vertex orders: walk through all permutations, the second presentation uses the "opposite" one
				p1 := perms[(caseNo+r)%len(perms)]
				p2 := perms[(caseNo+r+len(perms)/2)%len(perms)]
				if n >= 2 && r == 0 {
					p1, p2 = c14AllIdx(n), perms[(caseNo)%len(perms)]
				}
				in := c14GraphIn{U: u, Vs: append([]int{}, p1...), Es: c14ShuffleEdges(rng, es), Vs2: append([]int{}, p2...), Es2: c14ShuffleEdges(rng, es),
					Present: c14AllIdx(n), Objs: true}
				in.NoAnn = [][2]int{}
				if !(r == 2 && n > 0) {
					var closed [][2]int
					closed, in.NoAnn = c14CloseImplied(rng, u, in.Vs, append([][2]int{}, es...))
					if len(closed) != len(es) {
						in.Es, in.Es2 = c14ShuffleEdges(rng, closed), c14ShuffleEdges(rng, closed)
					}
				}
				if r == 2 && n > 0 {
					// object-free variant: vertices only introduced through AddEdge where possible, a repeated vertex and a repeated edge,
					// objects for a subset only
					in.Objs = false
					in.Vs = in.Vs[:rng.Intn(n+1)]
					in.Vs2 = c14ShuffleInts(rng, in.Vs)
					if len(in.Vs) > 0 && rng.Bool() {
						in.Vs = append(in.Vs, in.Vs[0])
						in.Vs2 = append(in.Vs2, in.Vs2[len(in.Vs2)-1])
					}
					if len(es) > 0 && rng.Bool() {
						in.Es = append(in.Es, in.Es[rng.Intn(len(in.Es))])
						in.Es2 = append([][2]int{in.Es[len(in.Es)-1]}, in.Es2...)
					}
					in.Present = []int{}
					for i := 0; i < n; i++ {
						if rng.Chance(2, 3) {
							in.Present = append(in.Present, i)
						}
					}
				}
				emit(in)
			}
		}
	}
	// 2. random graphs
	type plan struct{ count, maxN int }
	plans := []plan{{2000, 12}, {150, 40}}
	if tier == "thorough" {
		plans = []plan{{30000, 12}, {3000, 40}}
	}
	for _, pl := range plans {
		for c := 0; c < pl.count; c++ {
			n := 1 + rng.Intn(pl.maxN)
			u := c14Universe(rng, n)
			n = len(u)
			order := c14ShuffleInts(rng, c14AllIdx(n)) // hidden topological order
			var es [][2]int
			dens := proto.Pick(rng, []int{0, 5, 10, 20, 40}) // percent
			for a := 0; a < n; a++ {
				for b := 0; b < a; b++ {
					if rng.Chance(dens, 100) {
						es = append(es, [2]int{order[a], order[b]}) // order[a] depends on earlier order[b]: acyclic
					}
				}
			}
			back := proto.Pick(rng, []int{0, 0, 0, 1, 1, 2, 4})
			for k := 0; k < back; k++ {
				e := [2]int{rng.Intn(n), rng.Intn(n)} // arbitrary edge: may close a cycle or be a self-loop
				dup := false
				for _, x := range es {
					if x == e {
						dup = true
					}
				}
				if !dup {
					es = append(es, e)
				}
			}
			if es == nil {
				es = [][2]int{}
			}
			in := c14GraphIn{U: u, Vs: c14ShuffleInts(rng, c14AllIdx(n)), Objs: true}
			plain := rng.Intn(8) == 1
			in.NoAnn = [][2]int{}
			if !plain {
				es, in.NoAnn = c14CloseImplied(rng, u, in.Vs, es)
			}
			in.Es = c14ShuffleEdges(rng, es)
			in.Vs2, in.Es2 = c14ShuffleInts(rng, in.Vs), c14ShuffleEdges(rng, es)
			in.Present = []int{}
			allPresent := rng.Chance(1, 2)
			for i := 0; i < n; i++ {
				if allPresent || rng.Chance(2, 3) {
					in.Present = append(in.Present, i)
				}
			}
			if !plain && rng.Intn(8) == 0 { // repeated vertex (two objects with one id)
				in.Vs = append(in.Vs, in.Vs[rng.Intn(len(in.Vs))])
				in.Vs2 = append([]int{in.Vs[len(in.Vs)-1]}, in.Vs2...)
			}
			if plain { // plain graph API only: some vertices appear only as edge endpoints, an edge is added twice
				in.Objs = false
				in.Vs = in.Vs[:rng.Intn(n+1)]
				in.Vs2 = c14ShuffleInts(rng, in.Vs)
				if len(es) > 0 {
					in.Es = append(in.Es, in.Es[rng.Intn(len(in.Es))])
					in.Es2 = append([][2]int{in.Es[len(in.Es)-1]}, in.Es2...)
				}
			}
			emit(in)
		}
	}
}

// ---- domain `depgraph`: graph.DependencyGraph (all four edge builders and their errors) and SortObjs on top of it ----

type c14DepObj struct {
	ID       int        `json:"id"`       // index into the universe
	Crd      *[2]string `json:"crd"`      // spec.group, spec.names.kind (set on the object whether or not it is a CRD)
	DepState int        `json:"depState"` // depends-on annotation: 0 absent, 1 unparsable (DepRaw), 2 references DepRefs
	DepRefs  []int      `json:"depRefs"`
	DepRaw   string     `json:"depRaw"`
	MutState int        `json:"mutState"` // apply-time-mutation annotation: same coding
	MutRefs  []int      `json:"mutRefs"`
	MutRaw   string     `json:"mutRaw"`
}

type c14DepIn struct {
	U    []jid       `json:"u"`
	Objs []c14DepObj `json:"objs"`
}

func c14DepMkObjs(ids object.ObjMetadataSet, in c14DepIn) object.UnstructuredSet {
	objs := object.UnstructuredSet{}
	for _, o := range in.Objs {
		u := c14MkUnstructured(ids[o.ID])
		if o.Crd != nil {
			_ = unstructured.SetNestedField(u.Object, o.Crd[0], "spec", "group")
			_ = unstructured.SetNestedField(u.Object, o.Crd[1], "spec", "names", "kind")
		}
		ann := map[string]string{}
		switch o.DepState {
		case 1:
			ann[dependson.Annotation] = o.DepRaw
		case 2:
			ds := dependson.DependencySet{}
			for _, r := range o.DepRefs {
				ds = append(ds, ids[r])
			}
			str, err := dependson.FormatDependencySet(ds)
			if err != nil {
				panic(err)
			}
			ann[dependson.Annotation] = str
		}
		switch o.MutState {
		case 1:
			ann[mutation.Annotation] = o.MutRaw
		case 2:
			m := mutation.ApplyTimeMutation{}
			for k, r := range o.MutRefs {
				m = append(m, mutation.FieldSubstitution{
					SourceRef:  mutation.ResourceReferenceFromObjMetadata(ids[r]),
					SourcePath: fmt.Sprintf("$.status.f%d", k),
					TargetPath: "$.spec.x",
				})
			}
			tmp := &unstructured.Unstructured{Object: map[string]any{}}
			if len(m) > 0 {
				if err := mutation.WriteAnnotation(tmp, m); err != nil {
					panic(err)
				}
				ann[mutation.Annotation] = tmp.GetAnnotations()[mutation.Annotation]
			} else {
				ann[mutation.Annotation] = "[]"
			}
		}
		if len(ann) > 0 {
			u.SetAnnotations(ann)
		}
		objs = append(objs, u)
	}
	return objs
}

// c14DepErrJ: one error of DependencyGraph as [object index, "dep"|"mut"|"?", [[kind, target index]...]]
func c14DepErrJ(ix c14IDIndex, e error) []any {
	var ve *validation.Error
	if !errors.As(e, &ve) || len(ve.Identifiers()) != 1 {
		return []any{-1, "?", [][]any{}}
	}
	annName := "?"
	items := [][]any{}
	for _, c := range multierror.Unwrap(ve.Unwrap()) {
		var iae object.InvalidAnnotationError
		if !errors.As(c, &iae) {
			items = append(items, []any{"?", -1})
			continue
		}
		switch iae.Annotation {
		case dependson.Annotation:
			annName = "dep"
		case mutation.Annotation:
			annName = "mut"
		}
		switch cause := iae.Cause.(type) {
		case graph.ExternalDependencyError:
			items = append(items, []any{"ext", ix.of(cause.Edge.To)})
		case graph.DuplicateDependencyError:
			items = append(items, []any{"dup", ix.of(cause.Edge.To)})
		default:
			items = append(items, []any{"invalid", -1})
		}
	}
	return []any{ix.of(ve.Identifiers()[0]), annName, items}
}

func c14RunDep(in c14DepIn) (out map[string]any) {
	defer func() {
		if r := recover(); r != nil {
			out = map[string]any{"panic": true, "msg": fmt.Sprint(r)}
		}
	}()
	ids := fromJids(in.U)
	ix := c14NewIDIndex(ids)
	out = map[string]any{"panic": false}
	g, err := graph.DependencyGraph(c14DepMkObjs(ids, in))
	out["size"] = g.Size()
	deps := make([][]int, 0, len(ids))
	for _, id := range ids {
		deps = append(deps, ix.ofSet(g.Dependencies(id)))
	}
	out["deps"] = deps
	errs := [][]any{}
	if err != nil {
		for _, e := range multierror.Unwrap(err) {
			errs = append(errs, c14DepErrJ(ix, e))
		}
	}
	out["errs"] = errs
	layers, serr := graph.SortObjs(c14DepMkObjs(ids, in))
	c, _, other := c14SortErrInfo(ix, serr)
	out["layers"], out["cyc"], out["sortOther"] = ix.ofObjLayers(layers), c, other
	return out
}

var c14BadDependsOn = []string{"", "a/b", "apps/namespaces/x/Deployment", "/Pod/a/b", "apps/ns/n1/Deployment/a", "g/k/n,"}
var c14BadMutation = []string{"{{", "- sourceRef: [", "foo: bar", "- 7"}

func c14GenDep(out *proto.Out, rng *proto.Rng, tier string) {
	n := 2500
	if tier == "thorough" {
		n = 40000
	}
	crdDefs := [][2]string{{"example.com", "Widget"}, {"example.com", "Deployment"}, {"a.example.com", "Zed"}, {"", "Pod"},
		{"apiextensions.k8s.io", "CustomResourceDefinition"}}
	for c := 0; c < n; c++ {
		size := 1 + rng.Intn(9)
		u := c14Universe(rng, size)
		seen := map[jid]bool{}
		for _, id := range u {
			seen[id] = true
		}
		add := func(id jid) {
			if !seen[id] {
				seen[id] = true
				u = append(u, id)
			}
		}
		// likely implicit-edge targets: Namespace objects named like namespaces in use, CRDs
		for k := rng.Intn(3); k > 0; k-- {
			add(jid{"", proto.Pick(rng, c14Namespaces), "", "Namespace"})
		}
		if rng.Chance(1, 4) {
			// a custom resource whose KIND is "Namespace" (another API group), named like a namespace in use: not a namespace
			add(jid{proto.Pick(rng, []string{"", "", proto.Pick(rng, c14Namespaces)}), proto.Pick(rng, c14Namespaces), proto.Pick(rng, []string{"x.io", "servicebus.azure.com"}), "Namespace"})
		}
		if rng.Chance(1, 6) {
			// … and one whose kind is "CustomResourceDefinition" in another group: not a CRD
			add(jid{"", proto.Pick(rng, []string{"widgets.example.com", "x"}), "x.io", "CustomResourceDefinition"})
		}
		ncrd := rng.Intn(3)
		for k := 0; k < ncrd; k++ {
			add(jid{"", proto.Pick(rng, []string{"widgets.example.com", "zeds.a.example.com", "x"}), "apiextensions.k8s.io", "CustomResourceDefinition"})
		}
		if rng.Chance(1, 3) {
			add(jid{proto.Pick(rng, c14Namespaces), proto.Pick(rng, c14Names), "example.com", "Widget"})
		}
		in := c14DepIn{U: u, Objs: []c14DepObj{}}
		messy := rng.Chance(2, 5)
		// the object set: most of the universe, the rest stays external
		for i := range u {
			if rng.Chance(4, 5) {
				in.Objs = append(in.Objs, c14DepObj{ID: i})
			}
		}
		if len(in.Objs) > 1 && rng.Chance(1, 10) { // the same id twice
			in.Objs = append(in.Objs, c14DepObj{ID: in.Objs[rng.Intn(len(in.Objs))].ID})
		}
		for k := range in.Objs {
			o := &in.Objs[k]
			o.DepRefs, o.MutRefs = []int{}, []int{}
			id := u[o.ID]
			isCRD := id[2] == "apiextensions.k8s.io" && id[3] == "CustomResourceDefinition"
			if (isCRD && rng.Chance(4, 5)) || rng.Chance(1, 25) || (id[3] == "CustomResourceDefinition" && rng.Chance(4, 5)) {
				d := proto.Pick(rng, crdDefs[:3])
				if messy {
					d = proto.Pick(rng, crdDefs)
				}
				o.Crd = &d
			}
			refs := func() []int {
				r := []int{}
				if !messy { // well-formed: distinct references to objects earlier in the set (explicit edges alone stay acyclic)
					for n := 1 + rng.Intn(2); n > 0 && k > 0; n-- {
						t := in.Objs[rng.Intn(k)].ID
						dup := t == o.ID
						for _, x := range r {
							if x == t {
								dup = true
							}
						}
						if !dup {
							r = append(r, t)
						}
					}
					return r
				}
				for n := 1 + rng.Intn(3); n > 0; n-- {
					r = append(r, rng.Intn(len(u)))
				}
				if rng.Chance(1, 6) {
					r = append(r, r[rng.Intn(len(r))]) // repeated reference
				}
				return r
			}
			switch rng.Intn(10) {
			case 0, 1, 2, 3:
				if r := refs(); len(r) > 0 {
					o.DepState, o.DepRefs = 2, r
				}
			case 4:
				if messy && rng.Chance(1, 2) {
					o.DepState, o.DepRaw = 1, proto.Pick(rng, c14BadDependsOn)
				}
			}
			switch rng.Intn(12) {
			case 0, 1, 2:
				if r := refs(); len(r) > 0 {
					o.MutState, o.MutRefs = 2, r
				}
			case 3:
				if messy && rng.Chance(1, 2) {
					o.MutState, o.MutRaw = 1, proto.Pick(rng, c14BadMutation)
				}
			}
		}
		out.Emit("depgraph", in, c14RunDep(in))
	}
}

func init() {
	register("depgraph", domain{gen: c14GenDep, run: func(raw json.RawMessage) (any, error) {
		var in c14DepIn
		if err := json.Unmarshal(raw, &in); err != nil {
			return nil, err
		}
		for _, o := range in.Objs {
			for _, l := range [][]int{{o.ID}, o.DepRefs, o.MutRefs} {
				for _, v := range l {
					if v < 0 || v >= len(in.U) {
						return nil, fmt.Errorf("depgraph: index %d outside universe", v)
					}
				}
			}
		}
		return c14RunDep(in), nil
	}})
	register("graph", domain{gen: c14GenGraph, run: func(raw json.RawMessage) (any, error) {
		var in c14GraphIn
		if err := json.Unmarshal(raw, &in); err != nil {
			return nil, err
		}
		for _, l := range [][]int{in.Vs, in.Vs2, in.Present} {
			for _, v := range l {
				if v < 0 || v >= len(in.U) {
					return nil, fmt.Errorf("graph: index %d outside universe", v)
				}
			}
		}
		for _, l := range [][][2]int{in.Es, in.Es2} {
			for _, e := range l {
				if e[0] < 0 || e[0] >= len(in.U) || e[1] < 0 || e[1] >= len(in.U) {
					return nil, fmt.Errorf("graph: edge %v outside universe", e)
				}
			}
		}
		return c14RunGraph(in), nil
	}})
}
