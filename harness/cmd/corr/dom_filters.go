package main

import (
	"encoding/json"
	"errors"
	"fmt"

	"k8s.io/apimachinery/pkg/apis/meta/v1/unstructured"
	"k8s.io/apimachinery/pkg/types"
	"k8s.io/apimachinery/pkg/util/sets"
	"sigs.k8s.io/cli-utils/pkg/apis/actuation"
	"sigs.k8s.io/cli-utils/pkg/apply/cache"
	"sigs.k8s.io/cli-utils/pkg/apply/event"
	"sigs.k8s.io/cli-utils/pkg/apply/filter"
	"sigs.k8s.io/cli-utils/pkg/apply/taskrunner"
	"sigs.k8s.io/cli-utils/pkg/common"
	"sigs.k8s.io/cli-utils/pkg/inventory"
	"sigs.k8s.io/cli-utils/pkg/object/graph"
	"verif/harness/internal/proto"
)

// domain policy: the inventory-policy matrix and the stateless prune filters on one live object.
//   owner: "" (no annotation) | "inv-1" (match) | "other"; policy 0..2; annotations: list of [key, value];
//   kind Namespace/ConfigMap, name; localNs: namespaces in use; uid; appliedUids
type policyIn struct {
	Owner   string      `json:"owner"`
	Policy  int         `json:"policy"`
	Annots  [][2]string `json:"annots"`
	ID      jid         `json:"id"`
	LocalNs []string    `json:"localNs"`
	UID     string      `json:"uid"`
	Applied []string    `json:"applied"`
}

func policyInv() inventory.Info {
	return inventory.WrapInventoryInfoObj(&unstructured.Unstructured{Object: map[string]interface{}{
		"apiVersion": "v1", "kind": "ConfigMap",
		"metadata": map[string]interface{}{"name": "inv", "namespace": "ns1", "labels": map[string]interface{}{common.InventoryLabel: "inv-1"}},
	}})
}

func runPolicy(in policyIn) (out map[string]any) {
	defer func() {
		if r := recover(); r != nil {
			out = map[string]any{"panic": fmt.Sprint(r)}
		}
	}()
	obj := manifest(sysObj{ID: in.ID})
	ann := map[string]string{}
	for _, kv := range in.Annots {
		ann[kv[0]] = kv[1]
	}
	if in.Owner != "" {
		ann[inventory.OwningInventoryKey] = in.Owner
	}
	if len(ann) > 0 {
		obj.SetAnnotations(ann)
	}
	obj.SetUID(types.UID(in.UID))
	inv := policyInv()
	pol := []inventory.Policy{inventory.PolicyMustMatch, inventory.PolicyAdoptIfNoInventory, inventory.PolicyAdoptAll}[in.Policy%3]
	ca, _ := inventory.CanApply(inv, obj, pol)
	cp, _ := inventory.CanPrune(inv, obj, pol)
	pass := func(f filter.ValidationFilter) bool { return f.Filter(obj) == nil }
	return map[string]any{
		"canApply": ca, "canPrune": cp,
		"preventRemove": !pass(filter.PreventRemoveFilter{}),
		"policyPrune":   pass(filter.InventoryPolicyPruneFilter{Inv: inv, InvPolicy: pol}),
		"nsInUse":       !pass(filter.LocalNamespacesFilter{LocalNamespaces: sets.NewString(in.LocalNs...)}),
		"justApplied":   !pass(filter.CurrentUIDFilter{CurrentUIDs: sets.NewString(in.Applied...)}),
	}
}

// domain depfilter: the real DependencyFilter on one object with one or two relations.
//   strategy 0 apply / 1 delete; dry 0..2; rels: [{invalid, rec: null | [strategy, actuation, reconcile]}]
type depfilterIn struct {
	Strategy int `json:"strategy"`
	Dry      int `json:"dry"`
	// how the related objects' ids differ from each other: 0 by name; 1 by API group only; 2 by kind only; 3 by namespace only;
	// 4 by name, one of them sharing everything but the group with the filtered object itself (records are kept per full id)
	Twin int `json:"twin,omitempty"`
	Rels     []struct {
		Invalid bool  `json:"invalid"`
		Rec     []int `json:"rec"`
	} `json:"rels"`
}

func runDepfilter(in depfilterIn) (out map[string]any) {
	defer func() {
		if r := recover(); r != nil {
			out = map[string]any{"panic": fmt.Sprint(r)}
		}
	}()
	tc := taskrunner.NewTaskContext(make(chan event.Event, 16), cache.NewResourceCacheMap())
	a := fromJid(jid{"ns1", "a", "", "ConfigMap"})
	g := graph.New()
	g.AddVertex(a)
	for i, r := range in.Rels {
		bj := jid{"ns1", fmt.Sprintf("b%d", i), "", "ConfigMap"}
		switch in.Twin {
		case 1:
			bj = jid{"ns1", "b", []string{"", "x.io", "y.io"}[i%3], "ConfigMap"}
		case 2:
			bj = jid{"ns1", "b", "", []string{"ConfigMap", "Secret", "Service"}[i%3]}
		case 3:
			bj = jid{[]string{"ns1", "ns2", "ns3"}[i%3], "b", "", "ConfigMap"}
		case 4:
			if i == 0 {
				bj = jid{"ns1", "a", "x.io", "ConfigMap"}
			}
		}
		b := fromJid(bj)
		if in.Strategy == 0 {
			g.AddEdge(a, b) // a depends on b
		} else {
			g.AddEdge(b, a) // b depends on a
		}
		if r.Invalid {
			tc.AddInvalidObject(b)
		}
		if r.Rec != nil {
			tc.InventoryManager().SetObjectStatus(actuation.ObjectStatus{
				ObjectReference: inventory.ObjectReferenceFromObjMetadata(b),
				Strategy:        actuation.ActuationStrategy(r.Rec[0]), Actuation: actuation.ActuationStatus(r.Rec[1]),
				Reconcile: actuation.ReconcileStatus(r.Rec[2])})
		}
	}
	tc.SetGraph(g)
	f := filter.DependencyFilter{TaskContext: tc, ActuationStrategy: actuation.ActuationStrategy(in.Strategy),
		DryRunStrategy: []common.DryRunStrategy{common.DryRunNone, common.DryRunClient, common.DryRunServer}[in.Dry%3]}
	err := f.Filter(manifest(sysObj{ID: toJid(a)}))
	res := "pass"
	if err != nil {
		var fatal *filter.FatalError
		if errors.As(err, &fatal) {
			res = "fatal:" + skipReason(fatal.Err)
		} else {
			res = "skip:" + skipReason(err)
		}
	}
	return map[string]any{"result": res}
}

func init() {
	register("policy", domain{
		gen: func(out *proto.Out, rng *proto.Rng, tier string) {
			annotSets := [][][2]string{
				{}, {{common.OnRemoveAnnotation, common.OnRemoveKeep}}, {{common.LifecycleDeleteAnnotation, common.PreventDeletion}},
				{{common.OnRemoveAnnotation, "delete"}}, {{common.LifecycleDeleteAnnotation, "keep"}}, {{common.OnRemoveAnnotation, common.PreventDeletion}},
				{{common.LifecycleDeleteAnnotation, common.OnRemoveKeep}}, {{"other/key", common.OnRemoveKeep}},
				{{common.OnRemoveAnnotation, "delete"}, {common.LifecycleDeleteAnnotation, common.PreventDeletion}},
				{{common.OnRemoveAnnotation, common.OnRemoveKeep}, {common.LifecycleDeleteAnnotation, "x"}},
				{{common.OnRemoveAnnotation, ""}, {common.LifecycleDeleteAnnotation, ""}},
			}
			ids := []jid{{"ns1", "a", "", "ConfigMap"}, {"", "ns1", "", "Namespace"}, {"", "ns3", "", "Namespace"}, {"ns1", "ns1", "", "ConfigMap"}, {"", "ns1", "x.io", "Namespace"}}
			for _, owner := range []string{"", "inv-1", "other", "inv-10"} {
				for pol := 0; pol < 3; pol++ {
					for _, an := range annotSets {
						for _, id := range ids {
							for _, ln := range [][]string{{}, {"ns1"}, {"ns2", "ns3"}} {
								for _, uid := range []string{"", "u1"} {
									for _, ap := range [][]string{{}, {"u1"}, {"u2", "u3"}} {
										in := policyIn{Owner: owner, Policy: pol, Annots: an, ID: id, LocalNs: ln, UID: uid, Applied: ap}
										out.Emit("policy", in, runPolicy(in))
									}
								}
							}
						}
					}
				}
			}
		},
		run: func(raw json.RawMessage) (any, error) {
			var in policyIn
			if err := json.Unmarshal(raw, &in); err != nil {
				return nil, err
			}
			return runPolicy(in), nil
		},
	})
	register("depfilter", domain{
		gen: func(out *proto.Out, rng *proto.Rng, tier string) {
			type rel = struct {
				Invalid bool  `json:"invalid"`
				Rec     []int `json:"rec"`
			}
			var rels []rel
			for _, inv := range []bool{false, true} {
				rels = append(rels, rel{Invalid: inv, Rec: nil})
				for s := 0; s < 2; s++ {
					for a := 0; a < 4; a++ {
						for rc := 0; rc < 5; rc++ {
							rels = append(rels, rel{Invalid: inv, Rec: []int{s, a, rc}})
						}
					}
				}
			}
			for strat := 0; strat < 2; strat++ {
				for dry := 0; dry < 3; dry++ {
					in0 := depfilterIn{Strategy: strat, Dry: dry}
					out.Emit("depfilter", in0, runDepfilter(in0))
					for _, r1 := range rels {
						in := depfilterIn{Strategy: strat, Dry: dry}
						in.Rels = append(in.Rels, r1)
						out.Emit("depfilter", in, runDepfilter(in))
					}
					// pairs (order of relations matters: the first one that does not pass decides)
					for i, r1 := range rels {
						for k, r2 := range rels {
							if tier != "thorough" && (i*7+k)%5 != 0 {
								continue
							}
							in := depfilterIn{Strategy: strat, Dry: dry, Twin: (i + k) % 5}
							in.Rels = append(in.Rels, r1, r2)
							out.Emit("depfilter", in, runDepfilter(in))
						}
					}
				}
			}
		},
		run: func(raw json.RawMessage) (any, error) {
			var in depfilterIn
			if err := json.Unmarshal(raw, &in); err != nil {
				return nil, err
			}
			return runDepfilter(in), nil
		},
	})
	// the system domain under one name per property (the driver evaluates that property's predicate)
	for _, p := range []string{"C01", "C02", "C03", "C04", "C05", "C10", "C11", "C12", "C13", "C18"} {
		name := "sys-" + p
		register(name, domain{gen: func(out *proto.Out, rng *proto.Rng, tier string) { genSysNamed(name, out, rng, tier) },
			run: func(raw json.RawMessage) (any, error) {
				var in sysIn
				if err := json.Unmarshal(raw, &in); err != nil {
					return nil, err
				}
				return runSysIsolated([]sysIn{in}, 1)[0], nil
			}})
	}
}
