package main

import (
	"encoding/json"
	"fmt"
	"sort"

	"k8s.io/apimachinery/pkg/runtime/schema"
	"k8s.io/apimachinery/pkg/types"
	"sigs.k8s.io/cli-utils/pkg/apis/actuation"
	"sigs.k8s.io/cli-utils/pkg/inventory"
	"sigs.k8s.io/cli-utils/pkg/object"
	"verif/harness/internal/proto"
)

// ids travel as [ns, name, group, kind]
type jid [4]string

func toJid(o object.ObjMetadata) jid {
	return jid{o.Namespace, o.Name, o.GroupKind.Group, o.GroupKind.Kind}
}
func fromJid(j jid) object.ObjMetadata {
	return object.ObjMetadata{Namespace: j[0], Name: j[1], GroupKind: schema.GroupKind{Group: j[2], Kind: j[3]}}
}
func toJids(s object.ObjMetadataSet) []jid {
	r := make([]jid, 0, len(s))
	for _, o := range s {
		r = append(r, toJid(o))
	}
	return r
}
func fromJids(js []jid) object.ObjMetadataSet {
	r := make(object.ObjMetadataSet, 0, len(js))
	for _, j := range js {
		r = append(r, fromJid(j))
	}
	return r
}
func sortJids(js []jid) []jid {
	sort.Slice(js, func(i, k int) bool {
		for f := 0; f < 4; f++ {
			if js[i][f] != js[k][f] {
				return js[i][f] < js[k][f]
			}
		}
		return false
	})
	return js
}

// ids that differ pairwise in exactly one field (so a comparison that forgets a field is exposed), plus an RBAC id with a colon
var c19Universe = []jid{
	{"ns", "a", "", "ConfigMap"},
	{"ns", "a", "apps", "ConfigMap"},
	{"other", "a", "", "ConfigMap"},
	{"ns", "b", "", "ConfigMap"},
	{"ns", "a", "", "Secret"},
	{"", "sys:b", "rbac.authorization.k8s.io", "ClusterRole"},
}

type setIn struct {
	A []jid `json:"a"`
	B []jid `json:"b"`
	X jid   `json:"x"`
}

func eqSets(a, b object.ObjMetadataSet) bool {
	if len(a) != len(b) {
		return false
	}
	for i := range a {
		if a[i] != b[i] {
			return false
		}
	}
	return true
}

func runSet(in setIn) (out map[string]any) {
	defer func() {
		if r := recover(); r != nil {
			out = map[string]any{"panic": true, "msg": fmt.Sprint(r)}
		}
	}()
	a0, b0 := fromJids(in.A), fromJids(in.B)
	// operands with spare capacity: an operation that appends to (a sub-slice of) its operand would write into it
	a := make(object.ObjMetadataSet, len(a0), len(a0)+4)
	copy(a, a0)
	b := make(object.ObjMetadataSet, len(b0), len(b0)+4)
	copy(b, b0)
	x := fromJid(in.X)
	out = map[string]any{"panic": false}
	out["union"] = toJids(a.Union(b))
	out["inter"] = toJids(a.Intersection(b))
	out["diff"] = toJids(a.Diff(b))
	out["equal"] = a.Equal(b)
	out["contains"] = a.Contains(x)
	out["unique"] = sortJids(toJids(a.Unique()))
	out["hashA"] = a.Hash()
	out["hashB"] = b.Hash()
	_ = a.ToMap()
	_ = a.ToStringMap()
	unchanged := eqSets(a, a0) && eqSets(b, b0)
	ac := append(object.ObjMetadataSet{}, a0...)
	out["remove"] = toJids(ac.Remove(x))
	// no aliasing: a result is a value of its own — a second call with another argument does not rewrite the first result, and
	// writing into a result does not change an operand
	sentinel := fromJid(jid{"zz", "sentinel", "zz", "Zz"})
	bx := append(append(object.ObjMetadataSet{}, b0...), x)
	for _, op := range []func(p, q object.ObjMetadataSet) object.ObjMetadataSet{
		func(p, q object.ObjMetadataSet) object.ObjMetadataSet { return p.Union(q) },
		func(p, q object.ObjMetadataSet) object.ObjMetadataSet { return p.Intersection(q) },
		func(p, q object.ObjMetadataSet) object.ObjMetadataSet { return p.Diff(q) },
		func(p, q object.ObjMetadataSet) object.ObjMetadataSet { return p.Unique() },
	} {
		// (Remove is documented to work in place and is left out)
		r1 := op(a, b)
		s1 := append(object.ObjMetadataSet{}, r1...)
		r2 := op(a, bx)
		if len(r2) > 0 {
			r2[0] = sentinel
		}
		if !eqSets(r1, s1) {
			unchanged = false
		}
		if len(r1) > 0 {
			r1[len(r1)-1] = sentinel
		}
		if !eqSets(a, a0) || !eqSets(b, b0) {
			unchanged = false
		}
	}
	out["operandsUnchanged"] = unchanged
	return out
}

func genLists(univ []jid, maxLen int) [][]jid {
	res := [][]jid{{}}
	prev := [][]jid{{}}
	for l := 1; l <= maxLen; l++ {
		var cur [][]jid
		for _, p := range prev {
			for _, u := range univ {
				n := append(append([]jid{}, p...), u)
				cur = append(cur, n)
			}
		}
		res = append(res, cur...)
		prev = cur
	}
	return res
}

func init() {
	register("set", domain{
		gen: func(out *proto.Out, rng *proto.Rng, tier string) {
			univ := []jid{c19Universe[0], c19Universe[1], c19Universe[5]}
			maxLen := 3
			if tier == "thorough" {
				maxLen = 4
			}
			lists := genLists(univ, maxLen)
			for _, a := range lists {
				for _, b := range lists {
					// x: one id in the universe chosen by rotation, plus (every 7th pair) all of them
					for xi, x := range univ {
						if tier != "thorough" && (len(a)+len(b)+xi)%3 != 0 && len(a)+len(b) > 3 {
							continue
						}
						in := setIn{A: a, B: b, X: x}
						out.Emit("set", in, runSet(in))
					}
				}
			}
			n := 3000
			if tier == "thorough" {
				n = 60000
			}
			for i := 0; i < n; i++ {
				la, lb := rng.Intn(9), rng.Intn(9)
				in := setIn{A: []jid{}, B: []jid{}, X: proto.Pick(rng, c19Universe)}
				for k := 0; k < la; k++ {
					in.A = append(in.A, proto.Pick(rng, c19Universe))
				}
				for k := 0; k < lb; k++ {
					in.B = append(in.B, proto.Pick(rng, c19Universe))
				}
				out.Emit("set", in, runSet(in))
			}
		},
		run: func(raw json.RawMessage) (any, error) {
			var in setIn
			if err := json.Unmarshal(raw, &in); err != nil {
				return nil, err
			}
			return runSet(in), nil
		},
	})
	register("mgr", domain{gen: genMgr, run: func(raw json.RawMessage) (any, error) {
		var in mgrIn
		if err := json.Unmarshal(raw, &in); err != nil {
			return nil, err
		}
		return runMgr(in), nil
	}})
}

type mgrIn struct {
	Ops [][]any `json:"ops"`
}

func anyJid(v any) jid {
	var j jid
	switch t := v.(type) {
	case jid:
		return t
	case []any:
		for i := 0; i < 4 && i < len(t); i++ {
			j[i], _ = t[i].(string)
		}
	}
	return j
}
func anyInt(v any) int {
	switch t := v.(type) {
	case int:
		return t
	case float64:
		return int(t)
	case int64:
		return int(t)
	}
	return 0
}
func anyStr(v any) string { s, _ := v.(string); return s }

func recJSON(r actuation.ObjectStatus) []any {
	return []any{toJid(inventory.ObjMetadataFromObjectReference(r.ObjectReference)), int(r.Strategy), int(r.Actuation), int(r.Reconcile), string(r.UID), r.Generation}
}

func mgrOp(m *inventory.Manager, op []any) (res any) {
	defer func() {
		if r := recover(); r != nil {
			res = "panic"
		}
	}()
	name := anyStr(op[0])
	switch name {
	case "add":
		id := fromJid(anyJid(op[1]))
		s, a := actuation.ActuationStrategy(anyInt(op[2])), actuation.ActuationStatus(anyInt(op[3]))
		uid, gen := types.UID(anyStr(op[4])), int64(anyInt(op[5]))
		// the Add* methods only take uid/gen for successful actuation; the harness generates uid=""/gen=0 otherwise
		switch {
		case s == actuation.ActuationStrategyApply && a == actuation.ActuationSucceeded:
			m.AddSuccessfulApply(id, uid, gen)
		case s == actuation.ActuationStrategyDelete && a == actuation.ActuationSucceeded:
			m.AddSuccessfulDelete(id, uid)
		case s == actuation.ActuationStrategyApply && a == actuation.ActuationPending:
			m.AddPendingApply(id)
		case s == actuation.ActuationStrategyDelete && a == actuation.ActuationPending:
			m.AddPendingDelete(id)
		case s == actuation.ActuationStrategyApply && a == actuation.ActuationSkipped:
			m.AddSkippedApply(id)
		case s == actuation.ActuationStrategyDelete && a == actuation.ActuationSkipped:
			m.AddSkippedDelete(id)
		case s == actuation.ActuationStrategyApply && a == actuation.ActuationFailed:
			m.AddFailedApply(id)
		default:
			m.AddFailedDelete(id)
		}
		return nil
	case "setrc":
		id := fromJid(anyJid(op[1]))
		var err error
		switch actuation.ReconcileStatus(anyInt(op[2])) {
		case actuation.ReconcilePending:
			err = m.SetPendingReconcile(id)
		case actuation.ReconcileSucceeded:
			err = m.SetSuccessfulReconcile(id)
		case actuation.ReconcileSkipped:
			err = m.SetSkippedReconcile(id)
		case actuation.ReconcileFailed:
			err = m.SetFailedReconcile(id)
		default:
			err = m.SetTimeoutReconcile(id)
		}
		if err != nil {
			return "err"
		}
		return "ok"
	case "isact":
		id := fromJid(anyJid(op[1]))
		s, a := actuation.ActuationStrategy(anyInt(op[2])), actuation.ActuationStatus(anyInt(op[3]))
		switch {
		case s == actuation.ActuationStrategyApply && a == actuation.ActuationSucceeded:
			return m.IsSuccessfulApply(id)
		case s == actuation.ActuationStrategyDelete && a == actuation.ActuationSucceeded:
			return m.IsSuccessfulDelete(id)
		case s == actuation.ActuationStrategyApply && a == actuation.ActuationPending:
			return m.IsPendingApply(id)
		case s == actuation.ActuationStrategyDelete && a == actuation.ActuationPending:
			return m.IsPendingDelete(id)
		case s == actuation.ActuationStrategyApply && a == actuation.ActuationSkipped:
			return m.IsSkippedApply(id)
		case s == actuation.ActuationStrategyDelete && a == actuation.ActuationSkipped:
			return m.IsSkippedDelete(id)
		case s == actuation.ActuationStrategyApply && a == actuation.ActuationFailed:
			return m.IsFailedApply(id)
		default:
			return m.IsFailedDelete(id)
		}
	case "isrc":
		id := fromJid(anyJid(op[1]))
		switch actuation.ReconcileStatus(anyInt(op[2])) {
		case actuation.ReconcilePending:
			return m.IsPendingReconcile(id)
		case actuation.ReconcileSucceeded:
			return m.IsSuccessfulReconcile(id)
		case actuation.ReconcileSkipped:
			return m.IsSkippedReconcile(id)
		case actuation.ReconcileFailed:
			return m.IsFailedReconcile(id)
		default:
			return m.IsTimeoutReconcile(id)
		}
	case "withact":
		return toJids(withAct(m, anyInt(op[1]), anyInt(op[2])))
	case "withrc":
		return toJids(withRc(m, anyInt(op[1])))
	case "uid":
		u, ok := m.AppliedResourceUID(fromJid(anyJid(op[1])))
		return []any{string(u), ok}
	case "uids":
		l := m.AppliedResourceUIDs().List()
		if l == nil {
			l = []string{}
		}
		return l
	case "gen":
		g, ok := m.AppliedGeneration(fromJid(anyJid(op[1])))
		return []any{g, ok}
	case "get":
		r, ok := m.ObjectStatus(fromJid(anyJid(op[1])))
		if !ok {
			return nil
		}
		return recJSON(*r)
	}
	return "unknown-op"
}

// the named per-outcome queries (not the generic ObjectsWith…): these are what callers use
func withAct(m *inventory.Manager, s, a int) object.ObjMetadataSet {
	switch [2]int{s, a} {
	case [2]int{0, 0}:
		return m.PendingApplies()
	case [2]int{0, 1}:
		return m.SuccessfulApplies()
	case [2]int{0, 2}:
		return m.SkippedApplies()
	case [2]int{0, 3}:
		return m.FailedApplies()
	case [2]int{1, 0}:
		return m.PendingDeletes()
	case [2]int{1, 1}:
		return m.SuccessfulDeletes()
	case [2]int{1, 2}:
		return m.SkippedDeletes()
	default:
		return m.FailedDeletes()
	}
}
func withRc(m *inventory.Manager, rc int) object.ObjMetadataSet {
	switch rc {
	case 0:
		return m.PendingReconciles()
	case 1:
		return m.SuccessfulReconciles()
	case 2:
		return m.SkippedReconciles()
	case 3:
		return m.FailedReconciles()
	default:
		return m.TimeoutReconciles()
	}
}

func runMgr(in mgrIn) map[string]any {
	m := inventory.NewManager()
	outs := make([]any, 0, len(in.Ops))
	for _, op := range in.Ops {
		outs = append(outs, mgrOp(m, op))
	}
	table := [][]any{}
	for _, r := range m.Inventory().Status.Objects {
		table = append(table, recJSON(r))
	}
	// all 13 per-outcome results are taken first and looked at afterwards, the way a caller holds several of them at once
	// (a result must not change because another query was made)
	var actRes [2][4]object.ObjMetadataSet
	var rcRes [5]object.ObjMetadataSet
	for s := 0; s < 2; s++ {
		for a := 0; a < 4; a++ {
			actRes[s][a] = withAct(m, s, a)
		}
	}
	for rc := 0; rc < 5; rc++ {
		rcRes[rc] = withRc(m, rc)
	}
	wa := [][]any{}
	for s := 0; s < 2; s++ {
		for a := 0; a < 4; a++ {
			wa = append(wa, []any{s, a, toJids(actRes[s][a])})
		}
	}
	wr := [][]any{}
	for rc := 0; rc < 5; rc++ {
		wr = append(wr, []any{rc, toJids(rcRes[rc])})
	}
	return map[string]any{"outs": outs, "final": map[string]any{"table": table, "withact": wa, "withrc": wr}}
}

func genMgrOp(rng *proto.Rng) []any {
	id := proto.Pick(rng, c19Universe)
	switch rng.Intn(12) {
	case 0, 1, 2, 3:
		s, a := rng.Intn(2), rng.Intn(4)
		uid, gen := "", 0
		if a == 1 {
			uid = proto.Pick(rng, []string{"", "u1", "u2", "u3"})
			if s == 0 {
				gen = rng.Intn(4)
			}
		}
		return []any{"add", id, s, a, uid, gen}
	case 4, 5:
		return []any{"setrc", id, rng.Intn(5)}
	case 6:
		return []any{"isact", id, rng.Intn(2), rng.Intn(4)}
	case 7:
		return []any{"isrc", id, rng.Intn(5)}
	case 8:
		if rng.Bool() {
			return []any{"withact", rng.Intn(2), rng.Intn(4)}
		}
		return []any{"withrc", rng.Intn(5)}
	case 9:
		return []any{"uid", id}
	case 10:
		if rng.Bool() {
			return []any{"uids"}
		}
		return []any{"gen", id}
	default:
		return []any{"get", id}
	}
}

func genMgr(out *proto.Out, rng *proto.Rng, tier string) {
	n := 6000
	if tier == "thorough" {
		n = 120000
	}
	// corpus-like fixed cases first: every query on the empty table
	for _, q := range [][]any{{"uid", c19Universe[0]}, {"gen", c19Universe[0]}, {"get", c19Universe[0]}, {"setrc", c19Universe[0], 1}, {"isact", c19Universe[0], 0, 1}, {"uids"}} {
		in := mgrIn{Ops: [][]any{q}}
		out.Emit("mgr", in, runMgr(in))
	}
	for i := 0; i < n; i++ {
		l := 1 + rng.Intn(14)
		in := mgrIn{}
		for k := 0; k < l; k++ {
			in.Ops = append(in.Ops, genMgrOp(rng))
		}
		out.Emit("mgr", in, runMgr(in))
	}
}
