package main

// C20: event streams generated from the grammar of C13 are pushed through the real JSON printer
// (printers.GetPrinter("json", …) = list.BaseListPrinter + json formatter + stats collector);
// the bytes written are split into lines, every line is re-parsed with encoding/json and canonicalised.
//   domain print        well-formed streams
//   domain grammar-neg  the same streams with exactly one grammar violation planted (must be rejected by the
//                       grammar; they are printed as well, which exercises panic / formatter-error branches)

import (
	"bytes"
	"context"
	"encoding/json"
	"errors"
	"fmt"
	"math"
	"reflect"
	"strings"
	"time"

	utilerrors "k8s.io/apimachinery/pkg/util/errors"
	"k8s.io/cli-runtime/pkg/genericiooptions"
	"sigs.k8s.io/cli-utils/pkg/apply/event"
	"sigs.k8s.io/cli-utils/pkg/common"
	pollevent "sigs.k8s.io/cli-utils/pkg/kstatus/polling/event"
	"sigs.k8s.io/cli-utils/pkg/kstatus/status"
	"sigs.k8s.io/cli-utils/pkg/multierror"
	"sigs.k8s.io/cli-utils/pkg/object"
	"sigs.k8s.io/cli-utils/pkg/object/validation"
	printcommon "sigs.k8s.io/cli-utils/pkg/print/common"
	"sigs.k8s.io/cli-utils/pkg/printers"
	"verif/harness/internal/proto"
)

// enums travel as their Go iota values
const (
	actApply = iota
	actPrune
	actDelete
	actWait
	actInventory
)

type c20Group struct {
	N   string `json:"n"`
	A   int    `json:"a"`
	Ids []jid  `json:"ids"`
}

type c20Ev struct {
	T      string     `json:"t"`                // init error group apply prune delete wait status validation
	G      string     `json:"g,omitempty"`      // group name
	A      int        `json:"a"`                // action (group events)
	S      int        `json:"s"`                // status enum value
	ID     *jid       `json:"id,omitempty"`     // object
	Ids    []jid      `json:"ids,omitempty"`    // validation: objects
	Groups []c20Group `json:"groups,omitempty"` // init: the plan
	E      *string    `json:"e,omitempty"`      // error text (nil: no error)
	St     string     `json:"st,omitempty"`     // status events: kstatus text
	M      string     `json:"m,omitempty"`      // status events: message
	W      bool       `json:"w,omitempty"`      // validation: error wrapped in *validation.Error
	// error events: the error is an aggregate of these causes (Agg 1: cli-utils MultiError, 2: apimachinery Aggregate; 3 the context's
	// DeadlineExceeded, 4 wrapped by the causes' text, 5 / 6 likewise Canceled); E is its text
	Causes []string `json:"causes,omitempty"`
	Agg    int      `json:"agg,omitempty"`
}

// c20AggErr builds the aggregate error of an error event (nil when the event carries a plain error).
func c20AggErr(e c20Ev) error {
	if e.Agg == 0 {
		return nil
	}
	var errs []error
	for _, c := range e.Causes {
		errs = append(errs, errors.New(c))
	}
	switch e.Agg {
	case 2:
		return utilerrors.NewAggregate(errs)
	case 3:
		return context.DeadlineExceeded
	case 4:
		return fmt.Errorf("%s: %w", strings.Join(e.Causes, "; "), context.DeadlineExceeded)
	case 5:
		return context.Canceled
	case 6:
		return fmt.Errorf("%s: %w", strings.Join(e.Causes, "; "), context.Canceled)
	}
	return multierror.New(errs...)
}

// c20AggEv: an error event whose error is an aggregate; the text the model sees is the aggregate's own Error().
func c20AggEv(agg int, causes []string) c20Ev {
	e := c20Ev{T: "error", Causes: causes, Agg: agg}
	if agg == 2 && len(causes) == 0 {
		e.Agg = 1 // NewAggregate(nil) is a nil error
	}
	e.E = sp(c20AggErr(e).Error())
	return e
}

type c20In struct {
	PS       bool       `json:"ps"`
	Plan     []c20Group `json:"plan"`
	Events   []c20Ev    `json:"events"`
	ExpectWf bool       `json:"expectWf"`
	Mut      string     `json:"mut,omitempty"`
	// the printer object has already printed another stream (one failed apply, one skipped prune) before this one:
	// counts and the result error are per stream, whatever the printer printed before
	Reuse bool `json:"reuse,omitempty"`
}

func c20ToGroups(gs []c20Group) []event.ActionGroup {
	var r []event.ActionGroup
	for _, g := range gs {
		r = append(r, event.ActionGroup{Name: g.N, Action: event.ResourceAction(g.A), Identifiers: fromJids(g.Ids)})
	}
	return r
}

func c20Err(e *string) error {
	if e == nil {
		return nil
	}
	return errors.New(*e)
}

func c20ID(e c20Ev) object.ObjMetadata {
	if e.ID == nil {
		return object.ObjMetadata{}
	}
	return fromJid(*e.ID)
}

func c20ToEvent(e c20Ev) (event.Event, error) {
	switch e.T {
	case "init":
		return event.Event{Type: event.InitType, InitEvent: event.InitEvent{ActionGroups: c20ToGroups(e.Groups)}}, nil
	case "error":
		msg := ""
		if e.E != nil {
			msg = *e.E
		}
		if ae := c20AggErr(e); ae != nil {
			return event.Event{Type: event.ErrorType, ErrorEvent: event.ErrorEvent{Err: ae}}, nil
		}
		return event.Event{Type: event.ErrorType, ErrorEvent: event.ErrorEvent{Err: errors.New(msg)}}, nil
	case "group":
		return event.Event{Type: event.ActionGroupType, ActionGroupEvent: event.ActionGroupEvent{
			GroupName: e.G, Action: event.ResourceAction(e.A), Status: event.ActionGroupEventStatus(e.S)}}, nil
	case "apply":
		return event.Event{Type: event.ApplyType, ApplyEvent: event.ApplyEvent{
			GroupName: e.G, Identifier: c20ID(e), Status: event.ApplyEventStatus(e.S), Error: c20Err(e.E)}}, nil
	case "prune":
		return event.Event{Type: event.PruneType, PruneEvent: event.PruneEvent{
			GroupName: e.G, Identifier: c20ID(e), Status: event.PruneEventStatus(e.S), Error: c20Err(e.E)}}, nil
	case "delete":
		return event.Event{Type: event.DeleteType, DeleteEvent: event.DeleteEvent{
			GroupName: e.G, Identifier: c20ID(e), Status: event.DeleteEventStatus(e.S), Error: c20Err(e.E)}}, nil
	case "wait":
		return event.Event{Type: event.WaitType, WaitEvent: event.WaitEvent{
			GroupName: e.G, Identifier: c20ID(e), Status: event.WaitEventStatus(e.S)}}, nil
	case "status":
		id := c20ID(e)
		return event.Event{Type: event.StatusType, StatusEvent: event.StatusEvent{
			Identifier:       id,
			PollResourceInfo: &pollevent.ResourceStatus{Identifier: id, Status: status.Status(e.St), Message: e.M},
		}}, nil
	case "validation":
		msg := ""
		if e.E != nil {
			msg = *e.E
		}
		var err error = errors.New(msg)
		ids := fromJids(e.Ids)
		if e.W {
			err = validation.NewError(err, ids...)
		}
		return event.Event{Type: event.ValidationType, ValidationEvent: event.ValidationEvent{Identifiers: ids, Error: err}}, nil
	}
	return event.Event{}, fmt.Errorf("unknown event type %q", e.T)
}

// ---- running the real printer ----

type c20Line struct {
	Type    string  `json:"type"`
	Action  *string `json:"action"`
	Status  *string `json:"status"`
	Ids     []jid   `json:"ids"`
	Error   *string `json:"error"`
	Message *string `json:"message"`
	Counts  []any   `json:"counts"` // nil or [count, successful, skipped, failed, timeout] (absent key = null)
	OK      bool    `json:"ok"`     // a proper JSON object: parses, RFC3339 timestamp, known keys, right JSON types
}

type c20Out struct {
	Lines []c20Line `json:"lines"`
	Err   string    `json:"err"` // none | event | result | format
	Panic bool      `json:"panic"`
	NL    bool      `json:"nl"` // every line (incl. the last) is newline-terminated
	Msg   string    `json:"-"`
}

func c20IDFrom(m map[string]any) (jid, bool) {
	var j jid
	ok := true
	for i, k := range []string{"namespace", "name", "group", "kind"} {
		s, isStr := m[k].(string)
		if !isStr {
			ok = false
		}
		j[i] = s
	}
	return j, ok
}

// canonicalise one output line by the KEYS it carries (independent of which formatter function wrote it)
func c20Canon(raw []byte) c20Line {
	l := c20Line{Ids: []jid{}, OK: true}
	var m map[string]any
	if err := json.Unmarshal(raw, &m); err != nil || m == nil {
		l.Type = "<unparseable>"
		l.OK = false
		return l
	}
	optStr := func(k string) *string {
		v, has := m[k]
		if !has {
			return nil
		}
		s, isStr := v.(string)
		if !isStr {
			l.OK = false
			return nil
		}
		return &s
	}
	if t := optStr("type"); t != nil {
		l.Type = *t
	} else {
		l.OK = false
	}
	if ts := optStr("timestamp"); ts == nil {
		l.OK = false
	} else if _, err := time.Parse(time.RFC3339, *ts); err != nil {
		l.OK = false
	}
	l.Action, l.Status, l.Error, l.Message = optStr("action"), optStr("status"), optStr("error"), optStr("message")
	// object fields
	_, hasName := m["name"]
	_, hasKind := m["kind"]
	_, hasNs := m["namespace"]
	_, hasGroup := m["group"]
	if hasName || hasKind || hasNs || hasGroup {
		j, ok := c20IDFrom(m)
		if !ok {
			l.OK = false
		}
		l.Ids = append(l.Ids, j)
	}
	if objs, has := m["objects"]; has {
		arr, isArr := objs.([]any)
		if !isArr || len(l.Ids) > 0 {
			l.OK = false
		}
		for _, o := range arr {
			om, isMap := o.(map[string]any)
			if !isMap || len(om) != 4 {
				l.OK = false
				continue
			}
			j, ok := c20IDFrom(om)
			if !ok {
				l.OK = false
			}
			l.Ids = append(l.Ids, j)
		}
	}
	// counters
	cnt := make([]any, 5)
	anyCnt := false
	for i, k := range []string{"count", "successful", "skipped", "failed", "timeout"} {
		v, has := m[k]
		if !has {
			continue
		}
		anyCnt = true
		f, isNum := v.(float64)
		if !isNum || f != math.Trunc(f) || f < 0 {
			l.OK = false
			continue
		}
		cnt[i] = int64(f)
	}
	if anyCnt {
		l.Counts = cnt
	}
	for k := range m {
		switch k {
		case "type", "timestamp", "action", "status", "error", "message", "name", "kind", "namespace", "group",
			"objects", "count", "successful", "skipped", "failed", "timeout":
		default:
			l.OK = false
		}
	}
	return l
}

func runC20(in c20In) (out c20Out) {
	evs := make([]event.Event, 0, len(in.Events))
	var errEvents []error
	for _, je := range in.Events {
		e, err := c20ToEvent(je)
		if err != nil {
			return c20Out{Lines: []c20Line{}, Err: "harness:" + err.Error()}
		}
		if e.Type == event.ErrorType {
			errEvents = append(errEvents, e.ErrorEvent.Err)
		}
		evs = append(evs, e)
	}
	var buf bytes.Buffer
	ioStreams := genericiooptions.IOStreams{In: &bytes.Buffer{}, Out: &buf, ErrOut: &bytes.Buffer{}}
	// exactly what cmd/apply, cmd/destroy do for --output json
	p := printers.GetPrinter(printers.JSONPrinter, ioStreams)
	printStream := func(evs []event.Event) (perr error) {
		ch := make(chan event.Event)
		done := make(chan struct{})
		go func() {
			defer close(ch)
			for _, e := range evs {
				select {
				case ch <- e:
				case <-done:
					return
				}
			}
		}()
		func() {
			defer func() {
				if r := recover(); r != nil {
					out.Panic = true
					out.Msg = fmt.Sprint(r)
				}
			}()
			perr = p.Print(ch, common.DryRunNone, in.PS)
		}()
		close(done)
		return perr
	}
	if in.Reuse {
		wa := fromJid(jid{"warm", "a", "", "ConfigMap"})
		wb := fromJid(jid{"warm", "b", "", "ConfigMap"})
		groups := event.ActionGroupList{{Name: "apply-0", Action: event.ApplyAction, Identifiers: object.ObjMetadataSet{wa}},
			{Name: "prune-0", Action: event.PruneAction, Identifiers: object.ObjMetadataSet{wb}}}
		_ = printStream([]event.Event{
			{Type: event.InitType, InitEvent: event.InitEvent{ActionGroups: groups}},
			{Type: event.ActionGroupType, ActionGroupEvent: event.ActionGroupEvent{GroupName: "apply-0", Action: event.ApplyAction, Status: event.Started}},
			{Type: event.ApplyType, ApplyEvent: event.ApplyEvent{GroupName: "apply-0", Identifier: wa, Status: event.ApplyFailed, Error: errors.New("warm-up failure")}},
			{Type: event.ActionGroupType, ActionGroupEvent: event.ActionGroupEvent{GroupName: "apply-0", Action: event.ApplyAction, Status: event.Finished}},
			{Type: event.ActionGroupType, ActionGroupEvent: event.ActionGroupEvent{GroupName: "prune-0", Action: event.PruneAction, Status: event.Started}},
			{Type: event.PruneType, PruneEvent: event.PruneEvent{GroupName: "prune-0", Identifier: wb, Status: event.PruneSkipped, Error: errors.New("warm-up skip")}},
			{Type: event.ActionGroupType, ActionGroupEvent: event.ActionGroupEvent{GroupName: "prune-0", Action: event.PruneAction, Status: event.Finished}},
		})
		buf.Reset()
		out.Panic, out.Msg = false, ""
	}
	perr := printStream(evs)

	// the result
	out.Err = "none"
	if perr != nil {
		var re *printcommon.ResultError
		isEv := false
		for _, ee := range errEvents {
			if sameErr(perr, ee) {
				isEv = true
			}
		}
		switch {
		case isEv:
			out.Err = "event"
		case errors.As(perr, &re):
			out.Err = "result"
		default:
			out.Err = "format"
		}
	}
	// the bytes: a sequence of newline-terminated lines, each one JSON object
	b := buf.Bytes()
	out.Lines = []c20Line{}
	out.NL = len(b) == 0 || b[len(b)-1] == '\n'
	parts := bytes.Split(b, []byte("\n"))
	if len(parts) > 0 && len(parts[len(parts)-1]) == 0 {
		parts = parts[:len(parts)-1]
	}
	for _, part := range parts {
		out.Lines = append(out.Lines, c20Canon(part))
	}
	return out
}

// ---- generation from the grammar ----

var c20Universe = []jid{
	{"ns", "a", "", "ConfigMap"},
	{"ns", "web", "apps", "Deployment"},
	{"", "sys:b", "rbac.authorization.k8s.io", "ClusterRole"},
	{"other", "c", "", "Secret"},
	{"ns", "a", "apps", "Deployment"},
	{"", "crd.example.com", "apiextensions.k8s.io", "CustomResourceDefinition"},
}
var c20Foreign = jid{"elsewhere", "zz", "example.com", "Foreign"}
var c20Kstatus = []string{"InProgress", "Failed", "Current", "Terminating", "NotFound", "Unknown"}
var c20ActNames = []string{"apply", "prune", "delete", "wait", "inventory"}

func sp(s string) *string { return &s }

// sameErr: identity of two error values; an apimachinery Aggregate is a slice (not comparable): same backing array and length.
func sameErr(a, b error) bool {
	ta, tb := reflect.TypeOf(a), reflect.TypeOf(b)
	if ta != tb {
		return false
	}
	if ta != nil && ta.Kind() == reflect.Slice {
		va, vb := reflect.ValueOf(a), reflect.ValueOf(b)
		return va.Len() == vb.Len() && va.Pointer() == vb.Pointer()
	}
	return a == b
}

func c20Subset(rng *proto.Rng, ids []jid, allowEmpty bool) []jid {
	r := []jid{}
	for _, id := range ids {
		if rng.Bool() {
			r = append(r, id)
		}
	}
	if len(r) == 0 && !allowEmpty {
		r = append(r, proto.Pick(rng, ids))
	}
	// random order
	for i := len(r) - 1; i > 0; i-- {
		k := rng.Intn(i + 1)
		r[i], r[k] = r[k], r[i]
	}
	return r
}

func c20OpOutcome(rng *proto.Rng, failBias int) (int, *string) {
	switch x := rng.Intn(10 + failBias); {
	case x < 5:
		return 1, nil // successful
	case x < 7:
		if rng.Bool() {
			return 2, sp("skipped: dependency " + proto.Pick(rng, []string{"failed", "not reconciled"}))
		}
		return 2, nil // skipped
	default:
		return 3, sp(proto.Pick(rng, []string{"boom", "forbidden: \"x\" <y> & z", "conflict\nline2", "téléchargement échoué", "quota 100% used", "bad path %2Fapi%s", "%!d(string=x) %v"}))
	}
}

// the per-object wait event sequences of one wait group, merged in random order (per-object order kept)
func c20WaitItems(rng *proto.Rng, g c20Group, failBias int) []c20Ev {
	var seqs [][]c20Ev
	for i := range g.Ids {
		id := g.Ids[i]
		mk := func(s int) c20Ev { return c20Ev{T: "wait", G: g.N, ID: &id, S: s} }
		var seq []c20Ev
		switch x := rng.Intn(10 + failBias); {
		case x < 2:
			seq = []c20Ev{mk(2)} // skipped
		case x < 4:
			seq = []c20Ev{mk(1)} // already reconciled
		case x < 7:
			seq = []c20Ev{mk(0), mk(1)} // pending, successful
		case x < 8:
			seq = []c20Ev{mk(0), mk(4), mk(1)} // pending, failed, then current again
		case x < 9:
			seq = []c20Ev{mk(0)} // pending only (legal per the grammar)
		default:
			if rng.Bool() {
				seq = []c20Ev{mk(0), mk(3)} // pending, timeout
			} else {
				seq = []c20Ev{mk(0), mk(4), mk(3)} // pending, failed, timeout
			}
		}
		seqs = append(seqs, seq)
	}
	var r []c20Ev
	for {
		var live []int
		for i, s := range seqs {
			if len(s) > 0 {
				live = append(live, i)
			}
		}
		if len(live) == 0 {
			return r
		}
		i := proto.Pick(rng, live)
		r = append(r, seqs[i][0])
		seqs[i] = seqs[i][1:]
	}
}

// one well-formed stream
func c20Gen(rng *proto.Rng, maxGroups, maxIds int) c20In {
	in := c20In{PS: rng.Bool(), ExpectWf: true, Plan: []c20Group{}, Events: []c20Ev{}, Reuse: rng.Chance(1, 4)}
	nIds := 1 + rng.Intn(maxIds)
	ids := append([]jid{}, c20Universe...)
	for len(ids) < nIds {
		k := len(ids)
		ids = append(ids, jid{"gen", fmt.Sprintf("obj-%d", k), "", "ConfigMap"})
	}
	ids = ids[:nIds]
	failBias := proto.Pick(rng, []int{0, 0, 2, 8}) // some streams without any failure, some with many
	nGroups := 1 + rng.Intn(maxGroups)
	shape := rng.Intn(4)
	for k := 0; k < nGroups; k++ {
		var a int
		switch shape {
		case 0: // applier-like: inventory, apply, wait, prune, wait, …
			a = []int{actInventory, actApply, actWait, actPrune, actWait}[k%5]
		case 1: // destroyer-like: delete, wait, …, inventory
			a = []int{actDelete, actWait}[k%2]
			if k == nGroups-1 && nGroups > 1 {
				a = actInventory
			}
		default:
			a = proto.Pick(rng, []int{actApply, actApply, actWait, actWait, actPrune, actDelete, actInventory})
		}
		g := c20Group{N: fmt.Sprintf("%s-%d", c20ActNames[a], k), A: a, Ids: c20Subset(rng, ids, rng.Chance(1, 10))}
		in.Plan = append(in.Plan, g)
	}
	// validation events first
	if rng.Chance(1, 3) {
		for n := 1 + rng.Intn(2); n > 0; n-- {
			vids := c20Subset(rng, ids, false)
			if len(vids) > 2 {
				vids = vids[:2]
			}
			in.Events = append(in.Events, c20Ev{T: "validation", Ids: vids, W: rng.Bool(),
				E: sp(proto.Pick(rng, []string{"metadata.name: Required value", "unknown resource type", "bad \"annotation\"", "name 50%off invalid %d"}))})
		}
	}
	// early exit: error instead of the plan event
	if rng.Chance(1, 14) {
		if rng.Chance(1, 2) {
			// ExitEarly with several invalid objects: one error event whose error aggregates one cause per object
			n := rng.Intn(4)
			var causes []string
			for i := 0; i < n; i++ {
				causes = append(causes, fmt.Sprintf("invalid object %d: metadata.name: Required value", i))
			}
			in.Events = append(in.Events, c20AggEv(1+rng.Intn(2), causes))
			return in
		}
		in.Events = append(in.Events, c20Ev{T: "error", E: sp("exit early: invalid objects")})
		return in
	}
	in.Events = append(in.Events, c20Ev{T: "init", Groups: in.Plan})
	run := nGroups
	truncated := rng.Chance(1, 4)
	if truncated {
		run = rng.Intn(nGroups + 1)
	}
	for _, g := range in.Plan[:run] {
		in.Events = append(in.Events, c20Ev{T: "group", G: g.N, A: g.A, S: 0})
		switch g.A {
		case actApply, actPrune, actDelete:
			order := append([]jid{}, g.Ids...)
			for i := len(order) - 1; i > 0; i-- {
				k := rng.Intn(i + 1)
				order[i], order[k] = order[k], order[i]
			}
			for i := range order {
				s, e := c20OpOutcome(rng, failBias)
				in.Events = append(in.Events, c20Ev{T: c20ActNames[g.A], G: g.N, ID: &order[i], S: s, E: e})
			}
		case actWait:
			in.Events = append(in.Events, c20WaitItems(rng, g, failBias)...)
		}
		in.Events = append(in.Events, c20Ev{T: "group", G: g.N, A: g.A, S: 1})
	}
	// forwarded status events anywhere after the plan event
	if rng.Bool() {
		initAt := 0
		for i, e := range in.Events {
			if e.T == "init" {
				initAt = i
			}
		}
		for n := rng.Intn(7); n > 0; n-- {
			pos := initAt + 1 + rng.Intn(len(in.Events)-initAt)
			id := proto.Pick(rng, ids)
			se := c20Ev{T: "status", ID: &id, St: proto.Pick(rng, c20Kstatus),
				M: proto.Pick(rng, []string{"", "Deployment is available. Replicas: 1", "resource \"x\" not found", "Rollout 50% done (%d/%d)",
					"colour \x1b[31mred\x1b[0m", "tab\tvt\vbell\a", "del\x7f", "tag \U000e0041", "line1\nline2 <b>&amp;</b> \u2028"})}
			in.Events = append(in.Events[:pos], append([]c20Ev{se}, in.Events[pos:]...)...)
		}
	}
	// final error: always possible; a truncated run usually ends with one
	if rng.Chance(1, 12) {
		// the run's own deadline / cancellation, bare or wrapped by a client call: an error event like any other
		in.Events = append(in.Events, c20AggEv(3+rng.Intn(4), []string{"task failed (action: \"Inventory\")", "Get \"https://x/api\""}[:1+rng.Intn(2)]))
	} else if rng.Chance(1, 16) {
		in.Events = append(in.Events, c20AggEv(1+rng.Intn(2), []string{"task failed (action: \"Inventory\")", "context canceled", "50% done"}[:1+rng.Intn(3)]))
	} else if (truncated && rng.Chance(3, 4)) || rng.Chance(1, 8) {
		in.Events = append(in.Events, c20Ev{T: "error", E: sp(proto.Pick(rng, []string{"context canceled", "task failed (action: \"Inventory\")", "polling for status failed: x", "disk 99% full: %w"}))})
	}
	return in
}

// ---- planting one grammar violation ----

func c20Indices(evs []c20Ev, pred func(c20Ev) bool) []int {
	var r []int
	for i, e := range evs {
		if pred(e) {
			r = append(r, i)
		}
	}
	return r
}
func c20Without(evs []c20Ev, i int) []c20Ev {
	r := append([]c20Ev{}, evs[:i]...)
	return append(r, evs[i+1:]...)
}
func c20Insert(evs []c20Ev, i int, e c20Ev) []c20Ev {
	r := append([]c20Ev{}, evs[:i]...)
	r = append(r, e)
	return append(r, evs[i:]...)
}

var c20Mutations = []string{"dup-result", "drop-result", "drop-started", "drop-finished", "error-not-last",
	"idless-validation", "wrong-group-name", "validation-after-init", "drop-init", "pending-result",
	"drop-waits-of-object", "wrong-action", "init-differs-from-plan", "foreign-object", "second-init",
	"event-after-error", "result-outside-group"}

// returns false when the mutation does not apply to this stream
func c20Mutate(rng *proto.Rng, in *c20In, mut string) bool {
	evs := append([]c20Ev{}, in.Events...)
	isResult := func(e c20Ev) bool { return e.T == "apply" || e.T == "prune" || e.T == "delete" }
	isStarted := func(e c20Ev) bool { return e.T == "group" && e.S == 0 }
	isFinished := func(e c20Ev) bool { return e.T == "group" && e.S == 1 }
	isInit := func(e c20Ev) bool { return e.T == "init" }
	pick := func(pred func(c20Ev) bool) int {
		ix := c20Indices(evs, pred)
		if len(ix) == 0 {
			return -1
		}
		return proto.Pick(rng, ix)
	}
	switch mut {
	case "dup-result":
		i := pick(isResult)
		if i < 0 {
			return false
		}
		evs = c20Insert(evs, i+1, evs[i])
	case "drop-result":
		i := pick(isResult)
		if i < 0 {
			return false
		}
		evs = c20Without(evs, i)
	case "drop-started":
		i := pick(isStarted)
		if i < 0 {
			return false
		}
		evs = c20Without(evs, i)
	case "drop-finished":
		i := pick(isFinished)
		if i < 0 {
			return false
		}
		evs = c20Without(evs, i)
	case "error-not-last":
		if len(evs) == 0 {
			return false
		}
		evs = c20Insert(evs, rng.Intn(len(evs)), c20Ev{T: "error", E: sp("too early")})
	case "idless-validation":
		i := pick(func(e c20Ev) bool { return e.T == "validation" })
		if i < 0 {
			evs = c20Insert(evs, 0, c20Ev{T: "validation", E: sp("no objects"), W: rng.Bool()})
		} else {
			evs[i].Ids = nil
		}
	case "wrong-group-name":
		i := pick(func(e c20Ev) bool { return e.T == "group" })
		if i < 0 {
			return false
		}
		evs[i].G = "bogus-0"
	case "wrong-action":
		i := pick(func(e c20Ev) bool { return e.T == "group" })
		if i < 0 {
			return false
		}
		evs[i].A = (evs[i].A + 1 + rng.Intn(4)) % 5
	case "validation-after-init":
		i := pick(isInit)
		if i < 0 {
			return false
		}
		id := c20Universe[0]
		evs = c20Insert(evs, i+1+rng.Intn(len(evs)-i), c20Ev{T: "validation", Ids: []jid{id}, E: sp("late")})
		// inserting after a final error would be another violation; either way the stream is malformed
	case "drop-init":
		i := pick(isInit)
		if i < 0 || (i+1 < len(evs) && evs[i+1].T == "error") {
			return false
		}
		evs = c20Without(evs, i)
	case "pending-result":
		i := pick(isResult)
		if i < 0 {
			return false
		}
		evs[i].S = 0
	case "drop-waits-of-object":
		i := pick(func(e c20Ev) bool { return e.T == "wait" })
		if i < 0 {
			return false
		}
		g, id := evs[i].G, *evs[i].ID
		var r []c20Ev
		for _, e := range evs {
			if e.T == "wait" && e.G == g && *e.ID == id {
				continue
			}
			r = append(r, e)
		}
		evs = r
	case "init-differs-from-plan":
		i := pick(isInit)
		if i < 0 || len(evs[i].Groups) == 0 {
			return false
		}
		gs := append([]c20Group{}, evs[i].Groups...)
		if rng.Bool() {
			gs = gs[:len(gs)-1]
		} else {
			k := rng.Intn(len(gs))
			gs[k].N += "x"
		}
		evs[i].Groups = gs
	case "foreign-object":
		i := pick(func(e c20Ev) bool { return isResult(e) || e.T == "wait" })
		if i < 0 {
			return false
		}
		f := c20Foreign
		evs[i].ID = &f
	case "second-init":
		i := pick(isInit)
		if i < 0 {
			return false
		}
		evs = c20Insert(evs, i+1, evs[i])
	case "event-after-error":
		if len(evs) == 0 || evs[len(evs)-1].T != "error" {
			evs = append(evs, c20Ev{T: "error", E: sp("fatal")})
		}
		id := c20Universe[0]
		evs = append(evs, c20Ev{T: "status", ID: &id, St: "Current"})
	case "result-outside-group":
		// move a result/wait event to just before its group's started event
		i := pick(func(e c20Ev) bool { return isResult(e) || e.T == "wait" })
		if i < 0 {
			return false
		}
		e := evs[i]
		evs = c20Without(evs, i)
		at := -1
		for k, x := range evs {
			if isStarted(x) && x.G == e.G {
				at = k
			}
		}
		if at < 0 {
			return false
		}
		evs = c20Insert(evs, at, e)
	default:
		return false
	}
	in.Events = evs
	in.ExpectWf = false
	in.Mut = mut
	return true
}

func init() {
	runRaw := func(raw json.RawMessage) (any, error) {
		var in c20In
		if err := json.Unmarshal(raw, &in); err != nil {
			return nil, err
		}
		return runC20(in), nil
	}
	register("print", domain{
		gen: func(out *proto.Out, rng *proto.Rng, tier string) {
			n := 12000
			if tier == "thorough" {
				n = 150000
			}
			for i := 0; i < n; i++ {
				mg, mi := 5, 6
				if tier == "thorough" && i%10 == 0 {
					mg, mi = 8, 12
				}
				in := c20Gen(rng, mg, mi)
				out.Emit("print", in, runC20(in))
			}
		},
		run: runRaw,
	})
	register("grammar-neg", domain{
		gen: func(out *proto.Out, rng *proto.Rng, tier string) {
			n := 3000
			if tier == "thorough" {
				n = 30000
			}
			for i := 0; i < n; i++ {
				in := c20Gen(rng, 5, 6)
				mut := c20Mutations[i%len(c20Mutations)]
				if !c20Mutate(rng, &in, mut) {
					continue
				}
				out.Emit("grammar-neg", in, runC20(in))
			}
		},
		run: runRaw,
	})
}
