package main

// domain prunestep: ONE prune step through the REAL task.PruneTask + prune.Pruner + the real prune filter chain
// (assembled exactly as applier.go / destroyer.go assemble it, the CurrentUIDFilter being added by PruneTask.Start from
// the real inventory Manager), compared with Sys.pruneOne.  Unlike the whole-run domains the manager table is an input,
// so two ids may share one UID (API-group aliases): the just-applied branch of the step is exercised.

import (
	"encoding/json"
	"fmt"
	"sync"
	"time"

	"k8s.io/apimachinery/pkg/api/meta"
	metav1 "k8s.io/apimachinery/pkg/apis/meta/v1"
	"k8s.io/apimachinery/pkg/types"
	"k8s.io/apimachinery/pkg/util/sets"
	"k8s.io/apimachinery/pkg/util/validation/field"
	cmdtesting "k8s.io/kubectl/pkg/cmd/testing"
	"sigs.k8s.io/cli-utils/pkg/apis/actuation"
	"sigs.k8s.io/cli-utils/pkg/apply/cache"
	"sigs.k8s.io/cli-utils/pkg/apply/event"
	"sigs.k8s.io/cli-utils/pkg/apply/filter"
	"sigs.k8s.io/cli-utils/pkg/apply/prune"
	"sigs.k8s.io/cli-utils/pkg/apply/task"
	"sigs.k8s.io/cli-utils/pkg/apply/taskrunner"
	"sigs.k8s.io/cli-utils/pkg/common"
	"sigs.k8s.io/cli-utils/pkg/inventory"
	"sigs.k8s.io/cli-utils/pkg/object"
	"sigs.k8s.io/cli-utils/pkg/object/graph"
	"verif/harness/internal/fakecluster"
	"verif/harness/internal/proto"
)

// psRec is one record of the inventory manager table; it travels as [id, strategy, actuation, reconcile, uid].
type psRec struct {
	ID        jid
	Strategy  int
	Actuation int
	Reconcile int
	UID       string
}

func (r psRec) MarshalJSON() ([]byte, error) {
	return json.Marshal([]any{r.ID, r.Strategy, r.Actuation, r.Reconcile, r.UID})
}

func (r *psRec) UnmarshalJSON(b []byte) error {
	var a []json.RawMessage
	if err := json.Unmarshal(b, &a); err != nil {
		return err
	}
	if len(a) != 5 {
		return fmt.Errorf("manager record: need 5 fields")
	}
	for i, dst := range []any{&r.ID, &r.Strategy, &r.Actuation, &r.Reconcile, &r.UID} {
		if err := json.Unmarshal(a[i], dst); err != nil {
			return err
		}
	}
	return nil
}

type pruneStepIn struct {
	// the object as read at planning time (what the PruneTask holds)
	ID     jid    `json:"id"`
	UID    string `json:"uid"`   // may be ""
	Owner  string `json:"owner"` // "" (no annotation) | "inv-1" | "other"
	Keep   bool   `json:"keep"`
	Detach bool   `json:"detach"`
	// the store at the time of the step: "" = the object is gone, else the UID it has now (differs from uid: replaced)
	StoreUID     string `json:"storeUid"`
	HasFinalizer bool   `json:"hasFinalizer"`
	// options
	Policy     int  `json:"policy"` // 0 MustMatch 1 AdoptIfNoInventory 2 AdoptAll
	Dry        int  `json:"dry"`    // 0 none 1 client 2 server
	Destroy    bool `json:"destroy"`
	Foreground bool `json:"foreground"`
	// namespaces in use by the apply set (apply runs only)
	LocalNs []string `json:"localNs"`
	// the inventory manager table before the step, in SetObjectStatus order
	Mgr []psRec `json:"mgr"`
	// objects depending on the object (graph edges dependent -> object, in AddEdge order), invalid ids
	Deps    []jid `json:"deps"`
	Invalid []jid `json:"invalid"`
	// the step's (first) mutating request is rejected by the server
	FailMut bool `json:"failMut"`
}

const psTaskName = "prune-0"

var (
	psMapperOnce sync.Once
	psMapper     meta.RESTMapper
	psMapperErr  error
)

// the static REST mapper of kubectl's test factory (as in sys_run.go), built once
func psGetMapper() (meta.RESTMapper, error) {
	psMapperOnce.Do(func() {
		tf := cmdtesting.NewTestFactory().WithNamespace(sysInvNs)
		defer tf.Cleanup()
		psMapper, psMapperErr = tf.ToRESTMapper()
	})
	return psMapper, psMapperErr
}

// psReason: skipReason plus the one error class it does not know (the field error "metadata.uid: Not found")
func psReason(err error) string {
	if err == nil {
		return ""
	}
	if fe, ok := err.(*field.Error); ok && fe.Type == field.ErrorTypeNotFound {
		return "notfound"
	}
	return skipReason(err)
}

func psCanonEvent(e event.Event) []any {
	switch e.Type {
	case event.PruneType:
		return []any{"prune", e.PruneEvent.GroupName, toJid(e.PruneEvent.Identifier), e.PruneEvent.Status.String(), psReason(e.PruneEvent.Error)}
	case event.DeleteType:
		return []any{"delete", e.DeleteEvent.GroupName, toJid(e.DeleteEvent.Identifier), e.DeleteEvent.Status.String(), psReason(e.DeleteEvent.Error)}
	}
	return canonEvent(e)
}

func runPruneStep(in pruneStepIn) (out map[string]any) {
	defer func() {
		if r := recover(); r != nil {
			out = map[string]any{"panic": fmt.Sprint(r)}
		}
	}()
	mapper, err := psGetMapper()
	if err != nil {
		return map[string]any{"anomaly": "mapper: " + err.Error()}
	}
	key, ok := keyOf(in.ID)
	if !ok {
		return map[string]any{"anomaly": "unknown kind"}
	}
	id := fromJid(in.ID)

	// the store
	c := fakecluster.New()
	so := sysObj{ID: in.ID, Keep: in.Keep, Detach: in.Detach, Owner: in.Owner}
	if in.StoreUID != "" {
		stored := manifest(so)
		stored.SetUID(types.UID(in.StoreUID))
		c.Put(key, stored)
	}
	c.NewRun()
	if in.FailMut {
		c.FailMut[0] = true
	}
	if in.HasFinalizer {
		c.Finalizer[key] = true
	}

	// the planning-time copy handed to the task
	obj := manifest(so)
	if in.UID != "" {
		obj.SetUID(types.UID(in.UID))
	}
	obj.SetGeneration(1)

	// task context as the applier / destroyer prepare it: manager records, graph, invalid objects
	evCh := make(chan event.Event, 64)
	tc := taskrunner.NewTaskContext(evCh, cache.NewResourceCacheMap())
	for _, r := range in.Mgr {
		tc.InventoryManager().SetObjectStatus(actuation.ObjectStatus{
			ObjectReference: inventory.ObjectReferenceFromObjMetadata(fromJid(r.ID)),
			Strategy:        actuation.ActuationStrategy(r.Strategy),
			Actuation:       actuation.ActuationStatus(r.Actuation),
			Reconcile:       actuation.ReconcileStatus(r.Reconcile),
			UID:             types.UID(r.UID),
		})
	}
	g := graph.New()
	g.AddVertex(id)
	for _, d := range in.Deps {
		g.AddVertex(fromJid(d))
	}
	for _, d := range in.Deps {
		g.AddEdge(fromJid(d), id) // d depends on the object
	}
	tc.SetGraph(g)
	for _, j := range in.Invalid {
		tc.AddInvalidObject(fromJid(j))
	}

	policy := []inventory.Policy{inventory.PolicyMustMatch, inventory.PolicyAdoptIfNoInventory, inventory.PolicyAdoptAll}[in.Policy%3]
	dry := []common.DryRunStrategy{common.DryRunNone, common.DryRunClient, common.DryRunServer}[in.Dry%3]
	prop := metav1.DeletePropagationBackground
	if in.Foreground {
		prop = metav1.DeletePropagationForeground
	}
	inv := policyInv()

	// the filter lists of applier.go and destroyer.go
	var filters []filter.ValidationFilter
	if in.Destroy {
		filters = []filter.ValidationFilter{
			filter.PreventRemoveFilter{},
			filter.InventoryPolicyPruneFilter{Inv: inv, InvPolicy: policy},
			filter.DependencyFilter{TaskContext: tc, ActuationStrategy: actuation.ActuationStrategyDelete, DryRunStrategy: dry},
		}
	} else {
		filters = []filter.ValidationFilter{
			filter.PreventRemoveFilter{},
			filter.InventoryPolicyPruneFilter{Inv: inv, InvPolicy: policy},
			filter.LocalNamespacesFilter{LocalNamespaces: sets.NewString(in.LocalNs...)},
			filter.DependencyFilter{TaskContext: tc, ActuationStrategy: actuation.ActuationStrategyDelete, DryRunStrategy: dry},
		}
	}
	pt := &task.PruneTask{
		TaskName:          psTaskName,
		Pruner:            &prune.Pruner{Client: c.Dynamic(), Mapper: mapper},
		Objects:           object.UnstructuredSet{obj},
		Filters:           filters,
		DryRunStrategy:    dry,
		PropagationPolicy: prop,
		Destroy:           in.Destroy,
	}

	pt.Start(tc)
	errKind := ""
	select {
	case res := <-tc.TaskChannel():
		if res.Err != nil {
			errKind = sysErrKind(res.Err)
		}
	case <-time.After(10 * time.Second):
		return map[string]any{"anomaly": "hang: no task result within 10s"}
	}
	events := [][]any{}
drain:
	for {
		select {
		case e := <-evCh:
			events = append(events, psCanonEvent(e))
		default:
			break drain
		}
	}

	muts := [][]any{}
	reads := 0
	for _, r := range c.Log {
		if r.Mutating {
			muts = append(muts, []any{r.Verb, jidOfKey(r.Key), r.DryRun, r.PrecondUID, r.Propagation, r.Result, r.Rejected})
		} else {
			reads++
		}
	}

	var rec any
	if st, found := tc.InventoryManager().ObjectStatus(id); found {
		rec = []any{int(st.Strategy), int(st.Actuation), int(st.Reconcile), string(st.UID)}
	}
	var store any
	if live := c.Get(key); live != nil {
		store = map[string]any{"uid": string(live.GetUID()), "owner": live.GetAnnotations()[inventory.OwningInventoryKey],
			"deleting": live.GetDeletionTimestamp() != nil}
	}
	return map[string]any{"events": events, "muts": muts, "reads": reads, "abandoned": tc.IsAbandonedObject(id),
		"rec": rec, "store": store, "err": errKind}
}

// ---------- generator ----------

var (
	psA     = jid{"ns1", "a", "", "ConfigMap"}
	psAlias = jid{"ns1", "a", "alias.example.io", "ConfigMap"} // the same object under another API group
	psB     = jid{"ns1", "b", "", "ConfigMap"}
	psD0    = jid{"ns1", "d0", "", "ConfigMap"}
	psD1    = jid{"ns2", "d1", "", "Secret"}
	psNs1   = jid{"", "ns1", "", "Namespace"}
	psNs3   = jid{"", "ns3", "", "Namespace"}
	psRole  = jid{"", "sys:r", "rbac.authorization.k8s.io", "ClusterRole"}
)

const psUID = "uid-a"

// the registration Build makes for a prune candidate
func psPending(id jid) psRec { return psRec{ID: id, Strategy: 1, Actuation: 0, Reconcile: 0} }

// relation between the object's UID and the manager table
func psUIDRelations(uid string) [][]psRec {
	rels := [][]psRec{
		{}, // no applied records
		{{ID: psB, Strategy: 0, Actuation: 1, Reconcile: 1, UID: "uid-b"}}, // applied, other uid
		{{ID: psAlias, Strategy: 0, Actuation: 1, Reconcile: 0, UID: ""}},  // applied alias whose uid is unknown (client dry-run)
		{{ID: psAlias, Strategy: 0, Actuation: 3, Reconcile: 0, UID: uid}}, // alias apply FAILED: not protected
		{{ID: psAlias, Strategy: 0, Actuation: 2, Reconcile: 0, UID: uid}}, // alias apply skipped
		{{ID: psAlias, Strategy: 0, Actuation: 0, Reconcile: 0, UID: uid}}, // alias apply pending
		{{ID: psAlias, Strategy: 1, Actuation: 1, Reconcile: 1, UID: uid}}, // alias DELETED successfully with that uid
	}
	for rc := 0; rc < 5; rc++ { // applied SAME uid, each reconcile status
		rels = append(rels, []psRec{{ID: psAlias, Strategy: 0, Actuation: 1, Reconcile: rc, UID: uid}})
	}
	// the alias behind another applied record
	rels = append(rels, []psRec{{ID: psB, Strategy: 0, Actuation: 1, Reconcile: 1, UID: "uid-b"}, {ID: psAlias, Strategy: 0, Actuation: 1, Reconcile: 0, UID: uid}})
	return rels
}

type psDep struct {
	deps    []jid
	recs    []psRec
	invalid []jid
}

func psDepChoices() []psDep {
	return []psDep{
		{}, // none
		{deps: []jid{psD0}, recs: []psRec{{ID: psD0, Strategy: 1, Actuation: 1, Reconcile: 1, UID: "uid-d0"}}}, // passing
		{deps: []jid{psD0}, recs: []psRec{{ID: psD0, Strategy: 1, Actuation: 1, Reconcile: 3, UID: "uid-d0"}}}, // blocking (reconcile failed)
		{deps: []jid{psD0}, recs: []psRec{{ID: psD0, Strategy: 1, Actuation: 1, Reconcile: 0, UID: "uid-d0"}}}, // premature outside dry-run, passing in dry-run
	}
}

func psEmit(out *proto.Out, in pruneStepIn) {
	if in.LocalNs == nil {
		in.LocalNs = []string{}
	}
	if in.Mgr == nil {
		in.Mgr = []psRec{}
	}
	if in.Deps == nil {
		in.Deps = []jid{}
	}
	if in.Invalid == nil {
		in.Invalid = []jid{}
	}
	out.Emit("prunestep", in, runPruneStep(in))
}

func genPruneStep(out *proto.Out, rng *proto.Rng, tier string) {
	owners := []string{"", "inv-1", "other"}
	prevents := [][2]bool{{false, false}, {true, false}, {false, true}}
	// (1) the main grid
	for _, owner := range owners {
		for _, kd := range prevents {
			for pol := 0; pol < 3; pol++ {
				for dry := 0; dry < 3; dry++ {
					for _, destroy := range []bool{false, true} {
						for ri, rel := range psUIDRelations(psUID) {
							for di, dp := range psDepChoices() {
								// the prevention annotation is looked at first: a reduced sub-grid behind it
								if (kd[0] || kd[1]) && (di > 1 || (ri > 1 && ri != 7 && ri != 8)) {
									continue
								}
								in := pruneStepIn{ID: psA, UID: psUID, Owner: owner, Keep: kd[0], Detach: kd[1], StoreUID: psUID,
									Policy: pol, Dry: dry, Destroy: destroy, LocalNs: []string{"ns1"}, Deps: dp.deps, Invalid: dp.invalid}
								in.Mgr = append(in.Mgr, psPending(psA))
								in.Mgr = append(in.Mgr, rel...)
								in.Mgr = append(in.Mgr, dp.recs...)
								psEmit(out, in)
							}
						}
					}
				}
			}
		}
	}
	// (2) the request itself: store state (gone / replaced / same), finalizer, rejected request, propagation, missing uid
	for _, owner := range owners {
		for _, kd := range append(prevents, [2]bool{true, true}) {
			for _, uid := range []string{"", psUID} {
				for _, store := range []string{"", psUID, "uid-new"} {
					for _, fin := range []bool{false, true} {
						for _, fail := range []bool{false, true} {
							for _, fg := range []bool{false, true} {
								for dry := 0; dry < 3; dry++ {
									for _, destroy := range []bool{false, true} {
										in := pruneStepIn{ID: psA, UID: uid, Owner: owner, Keep: kd[0], Detach: kd[1], StoreUID: store, HasFinalizer: fin,
											Policy: 2, Dry: dry, Destroy: destroy, Foreground: fg, FailMut: fail, Mgr: []psRec{psPending(psA)}}
										psEmit(out, in)
									}
								}
							}
						}
					}
				}
			}
		}
	}
	// (3) namespaces in use (apply runs only), cluster-scoped objects, alias of a namespace
	for _, id := range []jid{psNs1, psNs3, psRole, {"ns1", "ns1", "", "ConfigMap"}} {
		for _, ln := range [][]string{{}, {"ns1"}, {"ns2", "ns3"}} {
			for _, destroy := range []bool{false, true} {
				for dry := 0; dry < 3; dry++ {
					for _, alias := range []bool{false, true} {
						for _, kd := range prevents {
							in := pruneStepIn{ID: id, UID: psUID, Owner: "inv-1", Keep: kd[0], Detach: kd[1], StoreUID: psUID, Policy: 0, Dry: dry,
								Destroy: destroy, LocalNs: ln, Mgr: []psRec{psPending(id)}}
							if alias {
								in.Mgr = append(in.Mgr, psRec{ID: jid{id[0], id[1], "alias.example.io", id[3]}, Strategy: 0, Actuation: 1, Reconcile: 0, UID: psUID})
							}
							psEmit(out, in)
						}
					}
				}
			}
		}
	}
	// (4) one dependent, every record / invalid / unregistered, with and without an alias behind it; two dependents
	type depCell struct {
		rec     *psRec
		invalid bool
	}
	var cells []depCell
	for _, inv := range []bool{false, true} {
		cells = append(cells, depCell{nil, inv})
		for s := 0; s < 2; s++ {
			for a := 0; a < 4; a++ {
				for rc := 0; rc < 5; rc++ {
					cells = append(cells, depCell{&psRec{Strategy: s, Actuation: a, Reconcile: rc, UID: "uid-d"}, inv})
				}
			}
		}
	}
	mk := func(dry int, destroy, alias bool, cs []depCell) pruneStepIn {
		in := pruneStepIn{ID: psA, UID: psUID, Owner: "inv-1", StoreUID: psUID, Policy: 0, Dry: dry, Destroy: destroy, Mgr: []psRec{psPending(psA)}}
		for i, cl := range cs {
			d := []jid{psD0, psD1}[i]
			in.Deps = append(in.Deps, d)
			if cl.invalid {
				in.Invalid = append(in.Invalid, d)
			}
			if cl.rec != nil {
				r := *cl.rec
				r.ID = d
				in.Mgr = append(in.Mgr, r)
			}
		}
		if alias {
			in.Mgr = append(in.Mgr, psRec{ID: psAlias, Strategy: 0, Actuation: 1, Reconcile: 0, UID: psUID})
		}
		return in
	}
	for dry := 0; dry < 3; dry++ {
		for _, destroy := range []bool{false, true} {
			for _, alias := range []bool{false, true} {
				for _, c1 := range cells {
					psEmit(out, mk(dry, destroy, alias, []depCell{c1}))
				}
			}
		}
		for i, c1 := range cells {
			for k, c2 := range cells {
				if tier != "thorough" && (i*5+k)%11 != 0 {
					continue
				}
				psEmit(out, mk(dry, i%2 == 0, k%3 == 0, []depCell{c1, c2}))
			}
		}
	}
	// (5) random mixes of all dimensions
	n := 8000
	if tier == "thorough" {
		n = 120000
	}
	ids := []jid{psA, psA, psA, psNs1, psNs3, psRole, {"ns2", "s", "", "Secret"}}
	for i := 0; i < n; i++ {
		id := proto.Pick(rng, ids)
		in := pruneStepIn{ID: id, UID: psUID, Owner: proto.Pick(rng, owners), Policy: rng.Intn(3), Dry: rng.Intn(3), Destroy: rng.Bool(),
			Foreground: rng.Bool(), HasFinalizer: rng.Chance(1, 4), FailMut: rng.Chance(1, 6), StoreUID: psUID}
		if rng.Chance(1, 12) {
			in.UID = ""
		}
		switch rng.Intn(8) {
		case 0:
			in.StoreUID = ""
		case 1:
			in.StoreUID = "uid-new"
		}
		if rng.Chance(1, 5) {
			in.Keep = rng.Bool()
			in.Detach = !in.Keep || rng.Bool()
		}
		if rng.Chance(2, 3) {
			in.Owner = "inv-1"
		}
		if rng.Chance(1, 2) {
			in.Policy = 2
		}
		if rng.Chance(1, 2) {
			in.Dry = 0
		}
		for _, ns := range []string{"ns1", "ns2", "ns3"} {
			if rng.Chance(1, 3) {
				in.LocalNs = append(in.LocalNs, ns)
			}
		}
		if rng.Chance(5, 6) {
			in.Mgr = append(in.Mgr, psPending(id))
		}
		// applied records: others, aliases (same uid) in every state
		alias := jid{id[0], id[1], "alias.example.io", id[3]}
		for k := rng.Intn(3); k > 0; k-- {
			switch rng.Intn(4) {
			case 0:
				in.Mgr = append(in.Mgr, psRec{ID: psB, Strategy: 0, Actuation: 1, Reconcile: rng.Intn(5), UID: proto.Pick(rng, []string{"uid-b", "", psUID})})
			case 1:
				in.Mgr = append(in.Mgr, psRec{ID: alias, Strategy: 0, Actuation: 1, Reconcile: rng.Intn(5), UID: psUID})
			case 2:
				in.Mgr = append(in.Mgr, psRec{ID: alias, Strategy: rng.Intn(2), Actuation: rng.Intn(4), Reconcile: rng.Intn(5), UID: proto.Pick(rng, []string{psUID, psUID, "uid-x", ""})})
			case 3:
				in.Mgr = append(in.Mgr, psRec{ID: id, Strategy: rng.Intn(2), Actuation: rng.Intn(4), Reconcile: rng.Intn(5), UID: proto.Pick(rng, []string{psUID, "uid-x", ""})})
			}
		}
		// dependents
		for k, nd := 0, rng.Intn(3); k < nd; k++ {
			d := []jid{psD0, psD1}[k]
			in.Deps = append(in.Deps, d)
			switch rng.Intn(6) {
			case 0: // unregistered
			case 1:
				in.Mgr = append(in.Mgr, psRec{ID: d, Strategy: rng.Intn(2), Actuation: rng.Intn(4), Reconcile: rng.Intn(5), UID: "uid-" + d[1]})
			default:
				in.Mgr = append(in.Mgr, psRec{ID: d, Strategy: 1, Actuation: 1, Reconcile: proto.Pick(rng, []int{1, 1, 1, 0, 3, 4}), UID: "uid-" + d[1]})
			}
			if rng.Chance(1, 10) {
				in.Invalid = append(in.Invalid, d)
			}
		}
		if rng.Chance(1, 10) {
			in.Invalid = append(in.Invalid, psB)
		}
		if rng.Chance(1, 15) && len(in.Deps) > 0 {
			in.Deps = append(in.Deps, in.Deps[0]) // the same edge added twice
		}
		// shuffle the table a little: the order of SetObjectStatus calls must not matter for the step
		if len(in.Mgr) > 1 && rng.Bool() {
			i, k := rng.Intn(len(in.Mgr)), rng.Intn(len(in.Mgr))
			in.Mgr[i], in.Mgr[k] = in.Mgr[k], in.Mgr[i]
		}
		psEmit(out, in)
	}
}

func init() {
	register("prunestep", domain{
		gen: genPruneStep,
		run: func(raw json.RawMessage) (any, error) {
			var in pruneStepIn
			if err := json.Unmarshal(raw, &in); err != nil {
				return nil, err
			}
			return runPruneStep(in), nil
		},
	})
}
