package main

// Property C18 — apply-time mutation.  Domains:
//   jsonpath : the REAL jsonpath.Get / jsonpath.Set (and readFieldValue / writeFieldValue / valueToString through the
//              overlay export) on random JSON trees x paths x written values
//   mutate   : the REAL ApplyTimeMutator.Mutate with an in-memory ResourceCache + fake dynamic client + RESTMapper,
//              annotation written by the real mutation.WriteAnnotation
//
// Canonical tree encoding (shared with lean/CliUtils/Drv/C18.lean):
//   null, true/false, "string", [ ... ] as themselves; object -> {"o":{...}};
//   number -> {"i":"<exact decimal>"} iff its JSON literal (as encoding/json writes the Go value) is an integer in
//   [-2^63, 2^64-1] (what yaml.v3 decodes to an integer type; a float64 whose literal is such an integer is the same
//   JSON number and gets the same encoding), otherwise {"f":"<strconv 'g' -1 text>","j":"<encoding/json text>"}.
//   Nothing is rounded or dropped by the canonicalisation: two trees have the same encoding iff encoding/json writes
//   the same JSON document for them (member order aside).

import (
	"context"
	"encoding/json"
	"errors"
	"fmt"
	"math"
	"math/big"
	"regexp"
	"sort"
	"strconv"
	"strings"

	apierrors "k8s.io/apimachinery/pkg/api/errors"
	"k8s.io/apimachinery/pkg/api/meta"
	"k8s.io/apimachinery/pkg/apis/meta/v1/unstructured"
	"k8s.io/apimachinery/pkg/runtime"
	"k8s.io/apimachinery/pkg/runtime/schema"
	dynamicfake "k8s.io/client-go/dynamic/fake"
	clienttesting "k8s.io/client-go/testing"
	"sigs.k8s.io/cli-utils/pkg/apply/cache"
	"sigs.k8s.io/cli-utils/pkg/apply/mutator"
	"sigs.k8s.io/cli-utils/pkg/jsonpath"
	"sigs.k8s.io/cli-utils/pkg/kstatus/status"
	"sigs.k8s.io/cli-utils/pkg/object/mutation"
	"verif/harness/internal/proto"
)

// ---------------------------------------------------------------- canonical trees

var (
	bigMinInt64  = big.NewInt(math.MinInt64)
	bigMaxInt64  = big.NewInt(math.MaxInt64)
	bigMaxUint64 = new(big.Int).SetUint64(math.MaxUint64)
)

// canonFloat: a float64 is the JSON number encoding/json writes for it (shortest round-trip digits: 2^63 is written
// 9223372036854776000).  If that literal is an integer in [-2^63, 2^64-1] — i.e. yaml.v3 would read it back as an
// integer type — the canonical form is that integer, else the float with both of its texts.
func canonFloat(f float64) any {
	j, err := json.Marshal(f)
	if err != nil {
		return map[string]any{"f": strconv.FormatFloat(f, 'g', -1, 64), "j": "unsupported"}
	}
	if intLitRe.Match(j) {
		if bi, ok := new(big.Int).SetString(string(j), 10); ok && bi.Cmp(bigMinInt64) >= 0 && bi.Cmp(bigMaxUint64) <= 0 {
			return map[string]any{"i": bi.String()}
		}
	}
	return map[string]any{"f": strconv.FormatFloat(f, 'g', -1, 64), "j": string(j)}
}

var intLitRe = regexp.MustCompile(`^-?[0-9]+$`)

// canon turns a Go value (as found in unstructured content or returned by jsonpath.Get) into the canonical encoding.
func canon(v any) any {
	switch t := v.(type) {
	case nil:
		return nil
	case bool:
		return t
	case string:
		return t
	case int:
		return map[string]any{"i": strconv.FormatInt(int64(t), 10)}
	case int64:
		return map[string]any{"i": strconv.FormatInt(t, 10)}
	case int32:
		return map[string]any{"i": strconv.FormatInt(int64(t), 10)}
	case uint64:
		return map[string]any{"i": strconv.FormatUint(t, 10)}
	case uint:
		return map[string]any{"i": strconv.FormatUint(uint64(t), 10)}
	case float64:
		return canonFloat(t)
	case float32:
		return canonFloat(float64(t))
	case []any:
		r := make([]any, len(t))
		for i, x := range t {
			r[i] = canon(x)
		}
		return r
	case map[string]any:
		m := make(map[string]any, len(t))
		for k, x := range t {
			m[k] = canon(x)
		}
		return map[string]any{"o": m}
	}
	return map[string]any{"unknown": fmt.Sprintf("%T", v)}
}

func canonList(vs []any) []any {
	r := make([]any, len(vs))
	for i, v := range vs {
		r[i] = canon(v)
	}
	return r
}

// decode turns the canonical encoding (after a json.Unmarshal into `any`) back into the Go value that unstructured
// content would hold: int64 for integers that fit, uint64 above, float64, string, bool, nil, []any, map[string]any.
func decode(c any) (any, error) { return decodeM(c, false) }

// decodeK8s: as decode, but integers above MaxInt64 become float64 (what the Kubernetes JSON decoder produces;
// unstructured content cannot hold uint64 — DeepCopyJSONValue panics on it).  They must be exactly representable.
func decodeK8s(c any) (any, error) { return decodeM(c, true) }

func decodeM(c any, k8s bool) (any, error) {
	switch t := c.(type) {
	case nil:
		return nil, nil
	case bool:
		return t, nil
	case string:
		return t, nil
	case []any:
		r := make([]any, len(t))
		for i, x := range t {
			d, err := decodeM(x, k8s)
			if err != nil {
				return nil, err
			}
			r[i] = d
		}
		return r, nil
	case map[string]any:
		if o, ok := t["o"]; ok {
			om, ok := o.(map[string]any)
			if !ok {
				return nil, fmt.Errorf("bad object encoding")
			}
			r := make(map[string]any, len(om))
			for k, x := range om {
				d, err := decodeM(x, k8s)
				if err != nil {
					return nil, err
				}
				r[k] = d
			}
			return r, nil
		}
		if i, ok := t["i"]; ok {
			s, _ := i.(string)
			bi, ok := new(big.Int).SetString(s, 10)
			if !ok {
				return nil, fmt.Errorf("bad int %q", s)
			}
			if bi.IsInt64() {
				return bi.Int64(), nil
			}
			if bi.IsUint64() {
				if k8s {
					f, err := strconv.ParseFloat(s, 64)
					if err != nil {
						return nil, err
					}
					if back, _ := json.Marshal(f); string(back) != s {
						return nil, fmt.Errorf("int %q is not the JSON text of a float64: not representable in unstructured content", s)
					}
					return f, nil
				}
				return bi.Uint64(), nil
			}
			return nil, fmt.Errorf("int out of canonical range %q", s)
		}
		if f, ok := t["f"]; ok {
			s, _ := f.(string)
			v, err := strconv.ParseFloat(s, 64)
			if err != nil {
				return nil, err
			}
			return v, nil
		}
	}
	return nil, fmt.Errorf("bad canonical value %v", c)
}

// asSetValue: the dynamic type jsonpath.Get would have produced for a top-level value (yaml.v3: int for integers
// that fit, uint64 above) — this is what Mutate hands to jsonpath.Set.
func asSetValue(v any) any {
	if i, ok := v.(int64); ok {
		return int(i)
	}
	return v
}

// k8sify makes a generated tree legal unstructured content: no uint64 (see decodeK8s).
func k8sify(v any) any {
	switch t := v.(type) {
	case uint64:
		if t&(1<<11-1) == 0 {
			return float64(t)
		}
		return int64(t >> 1)
	case []any:
		for i, x := range t {
			t[i] = k8sify(x)
		}
	case map[string]any:
		for k, x := range t {
			t[k] = k8sify(x)
		}
	}
	return v
}

func deepCopy(v any) any {
	switch t := v.(type) {
	case []any:
		r := make([]any, len(t))
		for i, x := range t {
			r[i] = deepCopy(x)
		}
		return r
	case map[string]any:
		r := make(map[string]any, len(t))
		for k, x := range t {
			r[k] = deepCopy(x)
		}
		return r
	}
	return v
}

// ---------------------------------------------------------------- path expressions

var (
	identRe = regexp.MustCompile(`^[A-Za-z_][A-Za-z0-9_]*$`)
	numRe   = regexp.MustCompile(`^-?[0-9]+$`)
)

func quoteKey(k string, q byte) string {
	var sb strings.Builder
	sb.WriteByte('[')
	sb.WriteByte(q)
	for i := 0; i < len(k); i++ {
		if k[i] == '\\' || k[i] == q {
			sb.WriteByte('\\')
		}
		sb.WriteByte(k[i])
	}
	sb.WriteByte(q)
	sb.WriteByte(']')
	return sb.String()
}

// renderPath: steps (nil = wildcard) -> JSONPath expression in the fragment the model covers.  style selects among
// the equivalent notations (.k / ['k'] / ["k"], [n] / .n / ['n'], .* / [*]).
func renderPath(steps []*string, rng *proto.Rng) string {
	var sb strings.Builder
	sb.WriteByte('$')
	for _, s := range steps {
		style := 0
		if rng != nil {
			style = rng.Intn(6)
		}
		if s == nil {
			if style%2 == 0 {
				sb.WriteString(".*")
			} else {
				sb.WriteString("[*]")
			}
			continue
		}
		k := *s
		switch {
		case identRe.MatchString(k):
			switch style {
			case 4:
				sb.WriteString(quoteKey(k, '\''))
			case 5:
				sb.WriteString(quoteKey(k, '"'))
			default:
				sb.WriteString("." + k)
			}
		case numRe.MatchString(k):
			switch {
			case style == 4 && k[0] != '-':
				sb.WriteString("." + k)
			case style == 5:
				sb.WriteString(quoteKey(k, '\''))
			default:
				sb.WriteString("[" + k + "]")
			}
		default:
			if style == 5 {
				sb.WriteString(quoteKey(k, '"'))
			} else {
				sb.WriteString(quoteKey(k, '\''))
			}
		}
	}
	return sb.String()
}

func c18Sp(s string) *string { return &s }

// ---------------------------------------------------------------- generators

var c18Strings = []string{
	"", "x", "hello world", "true", "false", "null", "123", "1e3", "0x1F", "~", "-5", "1.0", ".inf", ".nan", "yes", "no", "on",
	"2021-01-01", "2001-12-14t21:59:43.10-05:00", "012", "0o17", "1_000", "a: b", "- x", "#c", "{}", "[]", "{a: 1}", "!!str x", "&a x", "*a",
	"multi\nline", "tab\there", "cr\rlf\r\n", "q\"uote", "back\\slash", "it's", "\\u0041", "\\n", "ünïcödé", "日本語", "😀", "  ", "\ufeff",
	"<tag>&amp;", " lead", "trail ", "  ", "${x}", "a${x}b${x}c", "${x}${x}", "aaa", "aaaa", "p\u0085q", "r \u0085 s", "\u0085", "\b\f\x01\x1f", "%s %d",
	" nbsp", "퟿�", "𝒳", "<<", "=", "? x", "|", ">", "'single'", "9007199254740993", "-0", "+1", "1e+21", "0.1",
}

var c18Keys = []string{
	"a", "b", "c", "data", "spec", "items", "name", "x1", "length", "0", "1", "-1", "007", "", "a.b", "<<", "sp ace", "it's", "q\"t", "back\\slash",
	"ünï", "日本", "😀", "a,b", "a:b", "[0]", "*", "$", "@", "(x)", "?(@.a)", "key\nnl", "k\u0085", "true", "null", "~", "..", "a]b", "'", "\"", "\\",
}

var c18Ints = []any{
	int64(0), int64(1), int64(-1), int64(42), int64(-7), int64(1 << 31), int64(9007199254740992), int64(9007199254740993), int64(-9007199254740993),
	int64(math.MaxInt64), int64(math.MinInt64), int64(math.MaxInt64 - 1), uint64(math.MaxInt64 + 1), uint64(math.MaxUint64), uint64(10000000000000000000),
}

var c18Floats = []any{
	0.1, 1.5, -2.5, 1e21, 1e-7, 1e300, 123456789.125, 1e20, 5e-324, 100.0, 1e19, -1e19, 3.0, math.Copysign(0, -1), 1e22, 2.5e-10, 0.000001, 1234567.0, 1e15 + 0.5,
	18446744073709551616.0, -9223372036854775808.0, -9223372036854777856.0, 1.7976931348623157e308, 0.30000000000000004,
}

func genScalar(rng *proto.Rng) any {
	switch rng.Intn(10) {
	case 0, 1, 2, 3:
		return proto.Pick(rng, c18Strings)
	case 4, 5:
		if rng.Chance(1, 3) {
			return int64(rng.Intn(2000) - 1000)
		}
		return proto.Pick(rng, c18Ints)
	case 6, 7:
		return proto.Pick(rng, c18Floats)
	case 8:
		return rng.Bool()
	default:
		return nil
	}
}

func genKey(rng *proto.Rng) string {
	if rng.Chance(3, 5) {
		return c18Keys[rng.Intn(9)]
	}
	return proto.Pick(rng, c18Keys)
}

func genValue(rng *proto.Rng, depth int) any {
	if depth <= 0 || rng.Chance(2, 5) {
		return genScalar(rng)
	}
	if rng.Bool() {
		n := rng.Intn(4)
		l := make([]any, 0, n)
		for i := 0; i < n; i++ {
			l = append(l, genValue(rng, depth-1))
		}
		return l
	}
	return genObject(rng, depth-1, rng.Intn(5))
}

func genObject(rng *proto.Rng, depth, n int) map[string]any {
	m := map[string]any{}
	for i := 0; i < n; i++ {
		m[genKey(rng)] = genValue(rng, depth)
	}
	return m
}

func sortedKeys(m map[string]any) []string {
	ks := make([]string, 0, len(m))
	for k := range m {
		ks = append(ks, k)
	}
	sort.Strings(ks)
	return ks
}

// pathableKeys: member names an ajson expression can denote.  A quoted step containing a raw control character
// (e.g. a newline) makes ajson fail to evaluate the expression; such names stay in the trees (they must survive a
// Set elsewhere) but paths do not go through them.
//
// noNel additionally excludes names containing U+0085: in the `mutate` domain the expression travels through the
// annotation, and mutation.WriteAnnotation (sigs.k8s.io/yaml JSONToYAML) does not round-trip that character.
func pathableKeys(m map[string]any, noNel bool) []string {
	var ks []string
	for _, k := range sortedKeys(m) {
		ok := !(noNel && strings.Contains(k, "\u0085"))
		for i := 0; i < len(k); i++ {
			if k[i] < 0x20 {
				ok = false
			}
		}
		if ok {
			ks = append(ks, k)
		}
	}
	return ks
}

// genPath walks into v choosing mostly existing children and sometimes one of the special situations (missing key,
// index out of range, negative index, numeric key on an object, text key on an array, `length`, wildcard, a step
// through a scalar).  noLength suppresses the `length`-on-array region (used for most of the stream).
func genPath(rng *proto.Rng, v any, maxLen int, noLength, noNel bool, specialDen int) []*string {
	var steps []*string
	cur := v
	// After a wildcard the frontier can hold several nodes.  ajson rewrites its `key` variable while it walks the
	// frontier (a negative or non-canonical index text such as -1, +1, 01 is replaced by the positive index computed
	// for the FIRST array it meets and the rewritten text is used for the remaining nodes), so such steps are not
	// evaluated per node there.  That corner is outside the modelled fragment: after a wildcard only canonical
	// non-negative index texts (and ordinary member names) are generated.
	afterWild := false
	for len(steps) < maxLen {
		if len(steps) > 0 && rng.Chance(1, 4) {
			break
		}
		special := rng.Intn(specialDen)
		switch t := cur.(type) {
		case map[string]any:
			ks := pathableKeys(t, noNel)
			switch {
			case special == 0:
				if afterWild {
					steps = append(steps, c18Sp(proto.Pick(rng, []string{"missing", "zz", "0", "length"})))
				} else {
					steps = append(steps, c18Sp(proto.Pick(rng, []string{"missing", "zz", "0", "-1", "length"})))
				}
				return steps
			case special == 1:
				steps = append(steps, nil)
				afterWild = true
				if len(ks) == 0 {
					return steps
				}
				cur = t[proto.Pick(rng, ks)]
			case len(ks) == 0:
				steps = append(steps, c18Sp(c18Keys[rng.Intn(9)]))
				return steps
			default:
				k := proto.Pick(rng, ks)
				if afterWild && numRe.MatchString(k) && (atoiOr(k) < 0 || strconv.Itoa(atoiOr(k)) != k) {
					return steps // e.g. member "007" or "-1": negative or not canonical, see above
				}
				if afterWild && strings.HasPrefix(k, "(") && strings.HasSuffix(k, ")") {
					// same ajson variable reuse: once an object in the frontier has unquoted ['(x)'] to (x), the next
					// ARRAY in the frontier takes it for a script expression and the whole evaluation fails
					return steps
				}
				steps = append(steps, c18Sp(k))
				cur = t[k]
			}
		case []any:
			n := len(t)
			switch {
			case special == 0:
				if afterWild {
					steps = append(steps, c18Sp(proto.Pick(rng, []string{strconv.Itoa(n), strconv.Itoa(n + 3), "a", "", "1x", "-"})))
				} else {
					steps = append(steps, c18Sp(proto.Pick(rng, []string{strconv.Itoa(n), strconv.Itoa(n + 3), strconv.Itoa(-n - 1), "a", "", "1x", "99999999999999999999", "-"})))
				}
				return steps
			case special == 1:
				steps = append(steps, nil)
				afterWild = true
				if n == 0 {
					return steps
				}
				cur = t[rng.Intn(n)]
			case special == 2 && !noLength:
				steps = append(steps, c18Sp("length"))
				cur = int64(n)
			case n == 0:
				if afterWild {
					steps = append(steps, c18Sp(proto.Pick(rng, []string{"0", "1"})))
				} else {
					steps = append(steps, c18Sp(proto.Pick(rng, []string{"0", "-1", "1"})))
				}
				return steps
			default:
				i := rng.Intn(n)
				txt := strconv.Itoa(i)
				if !afterWild {
					switch rng.Intn(8) {
					case 0:
						txt = strconv.Itoa(i - n)
					case 1:
						txt = "+" + txt
					case 2:
						txt = "0" + txt
					}
				}
				steps = append(steps, c18Sp(txt))
				cur = t[i]
			}
		default:
			// scalar: sometimes step through it
			if rng.Chance(1, 6) {
				if rng.Chance(1, 4) {
					steps = append(steps, nil)
				} else {
					steps = append(steps, c18Sp(proto.Pick(rng, []string{"a", "0", "length", "x1"})))
				}
			}
			return steps
		}
	}
	return steps
}

func atoiOr(s string) int {
	n, err := strconv.Atoi(s)
	if err != nil {
		return -1 << 40
	}
	return n
}

func stepsJSON(steps []*string) []any {
	r := make([]any, len(steps))
	for i, s := range steps {
		if s != nil {
			r[i] = *s
		}
	}
	return r
}

func stepsFromJSON(a []any) []*string {
	r := make([]*string, len(a))
	for i, x := range a {
		if s, ok := x.(string); ok {
			r[i] = c18Sp(s)
		}
	}
	return r
}

// ---------------------------------------------------------------- domain jsonpath

type jpIn struct {
	T     any    `json:"t"`     // canonical tree (object at the root)
	Steps []any  `json:"steps"` // string = command, null = wildcard
	Expr  string `json:"expr"`  // the expression handed to the real code
	V     any    `json:"v"`     // canonical written value
}

func runJP(in jpIn) (out map[string]any) {
	defer func() {
		if r := recover(); r != nil {
			out = map[string]any{"panic": true, "msg": fmt.Sprint(r)}
		}
	}()
	out = map[string]any{"panic": false}
	td, err := decode(in.T)
	if err != nil {
		return map[string]any{"panic": true, "msg": "decode: " + err.Error()}
	}
	obj, ok := td.(map[string]any)
	if !ok {
		return map[string]any{"panic": true, "msg": "root is not an object"}
	}
	vd, err := decode(in.V)
	if err != nil {
		return map[string]any{"panic": true, "msg": "decode: " + err.Error()}
	}
	val := asSetValue(vd)

	// Get before
	got, gerr := jsonpath.Get(obj, in.Expr)
	out["getErr"] = gerr != nil
	out["get"] = canonList(got)
	out["inputKept"] = jsonEq(canon(obj), in.T) // Get must not modify its input

	// readFieldValue / writeFieldValue on a copy (exactly-one-match requirement)
	cp := &unstructured.Unstructured{Object: deepCopy(obj).(map[string]any)}
	_, _, rerr := mutator.VerifReadFieldValue(cp, in.Expr)
	werr := mutator.VerifWriteFieldValue(cp, in.Expr, val)
	out["readOk"] = rerr == nil
	out["writeOk"] = werr == nil
	out["writeAfter"] = canon(cp.Object)

	// Set
	found, serr := jsonpath.Set(obj, in.Expr, val)
	out["found"] = found
	out["setErr"] = serr != nil
	out["after"] = canon(obj)

	// read back
	back, berr := jsonpath.Get(obj, in.Expr)
	out["backErr"] = berr != nil
	out["back"] = canonList(back)

	// valueToString of the value as jsonpath.Get delivers it
	w := map[string]any{"v": vd}
	wv, werr2 := jsonpath.Get(w, "$.v")
	if werr2 == nil && len(wv) == 1 {
		s, verr := mutator.VerifValueToString(wv[0])
		out["vts"] = s
		out["vtsErr"] = verr != nil
	} else {
		out["vts"] = ""
		out["vtsErr"] = true
	}
	return out
}

func jsonEq(a, b any) bool {
	x, err1 := json.Marshal(a)
	y, err2 := json.Marshal(b)
	if err1 != nil || err2 != nil {
		return false
	}
	var u, v any
	if json.Unmarshal(x, &u) != nil || json.Unmarshal(y, &v) != nil {
		return false
	}
	x, _ = json.Marshal(u)
	y, _ = json.Marshal(v)
	return string(x) == string(y)
}

func genJP(out *proto.Out, rng *proto.Rng, tier string) {
	// (1) exhaustive: one fixed tree x every path of length <= 3 over a small step alphabet x a few values
	t0 := map[string]any{
		"a":  map[string]any{"b": "x", "length": int64(7), "0": "z"},
		"l":  []any{"p", map[string]any{"q": int64(1)}, []any{int64(2)}},
		"s":  "str",
		"":   int64(0),
		"e":  []any{},
		"eo": map[string]any{},
	}
	alpha := []*string{c18Sp("a"), c18Sp("b"), c18Sp("l"), c18Sp("s"), c18Sp(""), c18Sp("0"), c18Sp("1"), c18Sp("-1"), c18Sp("5"), c18Sp("length"), c18Sp("q"), nil, c18Sp("zz"), c18Sp("e"), c18Sp("eo")}
	vals := []any{"W", int64(9007199254740993), map[string]any{"k": []any{nil, 1.5}}}
	maxL := 2
	if tier == "thorough" {
		maxL = 3
	}
	var paths [][]*string
	paths = append(paths, []*string{})
	prev := [][]*string{{}}
	for l := 1; l <= maxL; l++ {
		var cur [][]*string
		for _, p := range prev {
			for _, a := range alpha {
				cur = append(cur, append(append([]*string{}, p...), a))
			}
		}
		paths = append(paths, cur...)
		prev = cur
	}
	for _, p := range paths {
		if len(p) == 0 {
			continue // the root expression `$` is outside the modelled fragment
		}
		for _, v := range vals {
			in := jpIn{T: canon(t0), Steps: stepsJSON(p), Expr: renderPath(p, nil), V: canon(v)}
			out.Emit("jsonpath", in, runJP(in))
		}
	}
	// (2) random trees x paths x values
	n := 40000
	if tier == "thorough" {
		n = 400000
	}
	for i := 0; i < n; i++ {
		tree := genObject(rng, 3, 1+rng.Intn(5))
		// most of the stream stays outside the known-finding region C18.array-length; every 25th case may enter it
		noLength := i%25 != 0
		p := genPath(rng, tree, 5, noLength, false, 20)
		if len(p) == 0 {
			p = []*string{c18Sp(c18Keys[rng.Intn(9)])}
		}
		var v any
		if rng.Chance(1, 3) {
			v = genValue(rng, 2)
		} else {
			v = genScalar(rng)
		}
		in := jpIn{T: canon(tree), Steps: stepsJSON(p), Expr: renderPath(p, rng), V: canon(v)}
		out.Emit("jsonpath", in, runJP(in))
	}
}

// ---------------------------------------------------------------- domain mutate

type refJ struct {
	Kind       string `json:"kind"`
	APIVersion string `json:"apiVersion"`
	Group      string `json:"group"`
	Name       string `json:"name"`
	NS         string `json:"ns"`
}

type subJ struct {
	Src   refJ   `json:"src"`
	SP    []any  `json:"sp"`  // source path steps; null when the expression is empty
	SPX   string `json:"spx"` // source path expression
	TP    []any  `json:"tp"`
	TPX   string `json:"tpx"`
	Token string `json:"token"`
}

type mapJ struct {
	Group      string   `json:"group"`
	Kind       string   `json:"kind"`
	Versions   []string `json:"versions"`
	Namespaced bool     `json:"namespaced"`
}

type storeJ struct {
	Group   string `json:"group"`
	Kind    string `json:"kind"`
	NS      string `json:"ns"`
	Name    string `json:"name"`
	Cached  any    `json:"cached"`  // canonical tree or null
	HasC    bool   `json:"hasCached"`
	Current bool   `json:"current"` // cached status is Current
	Cluster any    `json:"cluster"` // canonical tree or null
	HasK    bool   `json:"hasCluster"`
	// the cache holds an entry WITHOUT an object body under this status (what an earlier failed lookup — NotFound — or the
	// status watcher leaves behind): never a reason not to ask the cluster
	NilCached string `json:"nilCached,omitempty"`
	// a GET of this object from the cluster fails with this API error (forbidden | throttled | timeout | srvtimeout | internal):
	// the cluster's copy cannot be had; whatever the cache holds under a non-Current status is no substitute
	GetFail string `json:"getFail,omitempty"`
}

type mutIn struct {
	Target refJ     `json:"target"`
	Obj    any      `json:"obj"`   // canonical tree of the object handed to Mutate (annotation included)
	Annot  string   `json:"annot"` // absent | invalid | ok
	Subs   []subJ   `json:"subs"`
	Mapper []mapJ   `json:"mapper"`
	Store  []storeJ `json:"store"`
}

var c18Mapper = []mapJ{
	{Group: "", Kind: "ConfigMap", Versions: []string{"v1"}, Namespaced: true},
	{Group: "", Kind: "Namespace", Versions: []string{"v1"}, Namespaced: false},
	{Group: "apps", Kind: "Deployment", Versions: []string{"v1"}, Namespaced: true},
	{Group: "example.com", Kind: "Widget", Versions: []string{"v1"}, Namespaced: true},
}

func errKind(err error) string {
	if err == nil {
		return "none"
	}
	m := err.Error()
	switch {
	case strings.HasPrefix(m, "failed to read annotation"):
		return "annotation"
	case strings.HasPrefix(m, "invalid self-reference"):
		return "selfRef"
	case strings.HasPrefix(m, "failed to identify source object mapping"):
		return "mapping"
	case strings.HasPrefix(m, "failed to get source object"):
		return "sourceGet"
	case strings.HasPrefix(m, "failed to read field") && strings.Contains(m, "from target object"):
		return "targetRead"
	case strings.HasPrefix(m, "failed to read field") && strings.Contains(m, "from source object"):
		return "sourceRead"
	case strings.HasPrefix(m, "source field"):
		return "sourceRead"
	case strings.HasPrefix(m, "token is specified"):
		return "tokenNonString"
	case strings.HasPrefix(m, "failed to stringify"):
		return "stringify"
	case strings.HasPrefix(m, "failed to set field in target object"):
		return "targetWrite"
	}
	return "other"
}

func gvOf(group, version string) string {
	if group == "" {
		return version
	}
	return group + "/" + version
}

func runMut(in mutIn) (out map[string]any) {
	defer func() {
		if r := recover(); r != nil {
			out = map[string]any{"panic": true, "msg": fmt.Sprint(r)}
		}
	}()
	od, err := decodeK8s(in.Obj)
	if err != nil {
		return map[string]any{"panic": true, "msg": "decode: " + err.Error()}
	}
	om, ok := od.(map[string]any)
	if !ok {
		return map[string]any{"panic": true, "msg": "object root is not a map"}
	}
	target := &unstructured.Unstructured{Object: om}

	var gvs []schema.GroupVersion
	for _, e := range in.Mapper {
		for _, v := range e.Versions {
			gvs = append(gvs, schema.GroupVersion{Group: e.Group, Version: v})
		}
	}
	mapper := meta.NewDefaultRESTMapper(gvs)
	listKinds := map[schema.GroupVersionResource]string{}
	for _, e := range in.Mapper {
		for _, v := range e.Versions {
			gvk := schema.GroupVersionKind{Group: e.Group, Version: v, Kind: e.Kind}
			scope := meta.RESTScopeNamespace
			if !e.Namespaced {
				scope = meta.RESTScopeRoot
			}
			mapper.Add(gvk, scope)
			plural, _ := meta.UnsafeGuessKindToResource(gvk)
			listKinds[plural] = e.Kind + "List"
		}
	}
	rc := cache.NewResourceCacheMap()
	var clusterObjs []runtime.Object
	for _, s := range in.Store {
		if s.HasC {
			cd, err := decodeK8s(s.Cached)
			if err != nil {
				return map[string]any{"panic": true, "msg": "decode: " + err.Error()}
			}
			st := status.InProgressStatus
			if s.Current {
				st = status.CurrentStatus
			}
			u := &unstructured.Unstructured{Object: cd.(map[string]any)}
			// keyed explicitly, as the status watcher does, by the identity the store entry names
			rc.Put(mutation.ResourceReference{Kind: s.Kind, Group: s.Group, Name: s.Name, Namespace: s.NS}.ToObjMetadata(),
				cache.ResourceStatus{Resource: u, Status: st})
		}
		if s.NilCached != "" && !s.HasC {
			rc.Put(mutation.ResourceReference{Kind: s.Kind, Group: s.Group, Name: s.Name, Namespace: s.NS}.ToObjMetadata(),
				cache.ResourceStatus{Resource: nil, Status: status.Status(s.NilCached)})
		}
		if s.HasK {
			kd, err := decodeK8s(s.Cluster)
			if err != nil {
				return map[string]any{"panic": true, "msg": "decode: " + err.Error()}
			}
			clusterObjs = append(clusterObjs, &unstructured.Unstructured{Object: kd.(map[string]any)})
		}
	}
	client := dynamicfake.NewSimpleDynamicClientWithCustomListKinds(runtime.NewScheme(), listKinds, clusterObjs...)
	for _, s := range in.Store {
		if s.GetFail == "" {
			continue
		}
		s := s
		plural, _ := meta.UnsafeGuessKindToResource(schema.GroupVersionKind{Group: s.Group, Version: "v1", Kind: s.Kind})
		client.PrependReactor("get", plural.Resource, func(a clienttesting.Action) (bool, runtime.Object, error) {
			ga, ok := a.(clienttesting.GetAction)
			if !ok || ga.GetName() != s.Name || a.GetNamespace() != s.NS || a.GetResource().Group != s.Group {
				return false, nil, nil
			}
			gr := schema.GroupResource{Group: s.Group, Resource: plural.Resource}
			switch s.GetFail {
			case "forbidden":
				return true, nil, apierrors.NewForbidden(gr, s.Name, errors.New("no"))
			case "throttled":
				return true, nil, apierrors.NewTooManyRequests("slow down", 1)
			case "timeout":
				return true, nil, apierrors.NewTimeoutError("request timed out", 1)
			case "srvtimeout":
				return true, nil, apierrors.NewServerTimeout(gr, "get", 1)
			}
			return true, nil, apierrors.NewInternalError(errors.New("boom"))
		})
	}
	atm := &mutator.ApplyTimeMutator{Client: client, Mapper: mapper, ResourceCache: rc}
	mutated, reason, merr := atm.Mutate(context.TODO(), target)
	return map[string]any{
		"panic":    false,
		"mutated":  mutated,
		"err":      errKind(merr),
		"reasonOk": (reason != "") == mutated,
		"obj":      canon(target.Object),
	}
}

func c18MkObj(apiVersion, kind, ns, name string, body map[string]any) map[string]any {
	md := map[string]any{"name": name}
	if ns != "" {
		md["namespace"] = ns
	}
	o := map[string]any{"apiVersion": apiVersion, "kind": kind, "metadata": md}
	for k, v := range body {
		if k != "apiVersion" && k != "kind" && k != "metadata" {
			o[k] = v
		}
	}
	return o
}

var c18Tokens = []string{"${x}", "aa", "a", "${x}${x}", "<<", "true", "%s", "ü", "\n", " ", "x", "${y}", "日"}

func genMutCase(rng *proto.Rng, region bool) mutIn {
	in := mutIn{Mapper: c18Mapper, Annot: "ok"}
	// target
	tk := rng.Intn(10)
	switch {
	case tk < 6:
		in.Target = refJ{Kind: "ConfigMap", APIVersion: "v1", Name: "tgt", NS: "ns1"}
	case tk < 8:
		in.Target = refJ{Kind: "Widget", APIVersion: "example.com/v1", Name: "tgt", NS: "ns1"}
	case tk < 9:
		in.Target = refJ{Kind: "Namespace", APIVersion: "v1", Name: "tgt", NS: ""}
	default:
		in.Target = refJ{Kind: "Deployment", APIVersion: "apps/v1", Name: "tgt", NS: "ns2"}
	}
	body := map[string]any{
		"data": k8sify(genObject(rng, 2, 1+rng.Intn(4))),
		"spec": k8sify(genValue(rng, 3)),
	}
	tobj := c18MkObj(in.Target.APIVersion, in.Target.Kind, in.Target.NS, in.Target.Name, body)

	// stored objects
	type srcDef struct {
		group, version, kind, ns, name string
		mode                           int // 0 cache-current, 1 cluster only, 2 stale cache + cluster, 3 stale cache only, 4 nowhere, 5 cache-current + different cluster
	}
	defs := []srcDef{
		{"", "v1", "ConfigMap", "ns1", "src1", 0},
		{"apps", "v1", "Deployment", "ns1", "src2", 1},
		{"", "v1", "ConfigMap", "ns2", "src3", 2},
		{"", "v1", "Namespace", "", "nsobj", 5},
		{"example.com", "v1", "Widget", "ns1", "src5", 3},
		{"", "v1", "ConfigMap", "ns1", "gone", 4},
	}
	srcTrees := map[string]map[string]any{}
	for _, d := range defs {
		sb := map[string]any{"data": k8sify(genObject(rng, 2, 1+rng.Intn(4))), "status": k8sify(genValue(rng, 2))}
		if rng.Chance(1, 3) {
			// an integer above MaxInt64 (a float64 in unstructured content; jsonpath.Get delivers it as uint64)
			sb["data"].(map[string]any)["big"] = proto.Pick(rng, []any{9223372036854775808.0, 1e19})
		}
		o := c18MkObj(gvOf(d.group, d.version), d.kind, d.ns, d.name, sb)
		st := storeJ{Group: d.group, Kind: d.kind, NS: d.ns, Name: d.name}
		switch d.mode {
		case 0:
			st.HasC, st.Current, st.Cached = true, true, canon(o)
			srcTrees[d.name] = o
		case 1:
			st.HasK, st.Cluster = true, canon(o)
			srcTrees[d.name] = o
			if rng.Chance(1, 3) {
				st.NilCached = proto.Pick(rng, []string{"NotFound", "NotFound", "Unknown", "Current", "Terminating"})
			}
		case 2:
			stale := c18MkObj(gvOf(d.group, d.version), d.kind, d.ns, d.name, map[string]any{"data": k8sify(genObject(rng, 1, 2))})
			st.HasC, st.Current, st.Cached = true, false, canon(stale)
			st.HasK, st.Cluster = true, canon(o)
			srcTrees[d.name] = o
		case 5:
			other := c18MkObj(gvOf(d.group, d.version), d.kind, d.ns, d.name, map[string]any{"data": k8sify(genObject(rng, 1, 2))})
			st.HasC, st.Current, st.Cached = true, true, canon(o)
			st.HasK, st.Cluster = true, canon(other)
			srcTrees[d.name] = o
		case 3:
			st.HasC, st.Current, st.Cached = true, false, canon(o)
			srcTrees[d.name] = o
		case 4:
			srcTrees[d.name] = o
		}
		if d.mode != 4 {
			if rng.Chance(1, 8) {
				st.GetFail = proto.Pick(rng, []string{"forbidden", "throttled", "timeout", "srvtimeout", "internal"})
			}
			in.Store = append(in.Store, st)
		}
	}
	// the target itself is known to the cache and the cluster (a self-reference that slipped through would resolve)
	tgroup := ""
	if i := strings.Index(in.Target.APIVersion, "/"); i >= 0 {
		tgroup = in.Target.APIVersion[:i]
	}
	in.Store = append(in.Store, storeJ{Group: tgroup, Kind: in.Target.Kind, NS: in.Target.NS, Name: in.Target.Name,
		HasC: true, Current: true, Cached: canon(tobj), HasK: true, Cluster: canon(tobj)})
	srcTrees["tgt"] = tobj

	// substitutions
	nsubs := 1
	if rng.Chance(1, 5) {
		nsubs = 2 + rng.Intn(2)
	}
	var subs mutation.ApplyTimeMutation
	for k := 0; k < nsubs; k++ {
		d := defs[rng.Intn(4)] // mostly resolvable sources
		special := rng.Intn(40)
		src := refJ{Kind: d.kind, Name: d.name, NS: d.ns}
		if rng.Bool() {
			src.APIVersion = gvOf(d.group, d.version)
		} else {
			src.Group = d.group
			if rng.Chance(1, 4) {
				src.APIVersion = "ignored/v7" // Group wins over APIVersion
				if d.group == "" {
					src.APIVersion = "v1"
				}
			}
		}
		// implicit namespace when it would default to the same one
		if d.ns != "" && d.ns == in.Target.NS && rng.Bool() {
			src.NS = ""
		}
		switch special {
		case 0:
			d = defs[4]
			src = refJ{Kind: d.kind, Group: d.group, Name: d.name, NS: d.ns} // stale cache only -> not found
		case 1:
			d = defs[5]
			src = refJ{Kind: d.kind, APIVersion: "v1", Name: d.name, NS: d.ns} // nowhere
		case 2:
			src.Kind = "Gadget" // no mapping
		case 3:
			src.Name = "" // empty name
		case 4:
			src.APIVersion, src.Group = gvOf(d.group, "v9"), "" // unknown version
		case 5, 6:
			// self-reference: explicit or implicit namespace, by apiVersion or by group
			d = srcDef{tgroup, "v1", in.Target.Kind, in.Target.NS, in.Target.Name, 0}
			src = refJ{Kind: in.Target.Kind, Name: in.Target.Name, NS: in.Target.NS}
			if rng.Bool() {
				src.APIVersion = in.Target.APIVersion
			} else {
				src.Group = tgroup
				if tgroup == "" {
					src.APIVersion = "v1"
				}
			}
			if special == 6 {
				src.NS = ""
			}
		case 7:
			// same name and kind as the target but another namespace: not a self-reference
			if in.Target.NS != "" {
				src = refJ{Kind: in.Target.Kind, APIVersion: in.Target.APIVersion, Name: in.Target.Name, NS: "other"}
				d = srcDef{tgroup, "v1", in.Target.Kind, "other", in.Target.Name, 4}
			}
		case 8:
			// namespace given for a cluster-scoped source
			if d.ns == "" {
				src.NS = "ns1"
			}
		}
		stree, okTree := srcTrees[d.name]
		if !okTree {
			stree = map[string]any{}
		}
		noLen := !region
		spth := genPath(rng, stree, 4, noLen, true, 45)
		if rng.Chance(1, 16) {
			spth = append(spth, nil) // wildcard: usually 0 or >= 2 matches
		}
		tpth := genPath(rng, tobj, 4, noLen, true, 45)
		if rng.Chance(1, 18) {
			tpth = append(tpth, nil)
		}
		if len(spth) == 0 {
			spth = []*string{c18Sp("data")}
		}
		if len(tpth) == 0 {
			tpth = []*string{c18Sp("data")}
		}
		sub := subJ{Src: src, SP: stepsJSON(spth), SPX: renderPath(spth, rng), TP: stepsJSON(tpth), TPX: renderPath(tpth, rng)}
		if rng.Chance(1, 40) {
			sub.SP, sub.SPX = nil, ""
		}
		if rng.Chance(1, 40) {
			sub.TP, sub.TPX = nil, ""
		}
		if rng.Chance(2, 5) {
			sub.Token = proto.Pick(rng, c18Tokens)
			// make the token meaningful: aim the target path at a string that contains it, most of the time
			if rng.Chance(2, 3) {
				key := proto.Pick(rng, []string{"t1", "t2"})
				pool := []string{sub.Token, "pre" + sub.Token + "mid" + sub.Token + "post", sub.Token + sub.Token + sub.Token, "no occurrence", "a" + sub.Token, "aaa", "aaaaa"}
				tobj["data"].(map[string]any)[key] = proto.Pick(rng, pool)
				tp := []*string{c18Sp("data"), c18Sp(key)}
				sub.TP, sub.TPX = stepsJSON(tp), renderPath(tp, rng)
			}
		}
		in.Subs = append(in.Subs, sub)
		subs = append(subs, mutation.FieldSubstitution{
			SourceRef:  mutation.ResourceReference{Kind: src.Kind, APIVersion: src.APIVersion, Group: src.Group, Name: src.Name, Namespace: src.NS},
			SourcePath: sub.SPX, TargetPath: sub.TPX, Token: sub.Token,
		})
	}
	// the target may have been edited while planting tokens: refresh its stored copies
	in.Store[len(in.Store)-1].Cached = canon(tobj)
	in.Store[len(in.Store)-1].Cluster = canon(tobj)

	u := &unstructured.Unstructured{Object: deepCopy(tobj).(map[string]any)}
	switch rng.Intn(30) {
	case 0:
		in.Annot = "absent"
	case 1:
		in.Annot = "invalid"
		u.SetAnnotations(map[string]string{mutation.Annotation: proto.Pick(rng, []string{"not a valid substitution list", "{", "- sourceRef: 5", "[1,2]"})})
	default:
		if err := mutation.WriteAnnotation(u, subs); err != nil {
			in.Annot = "absent"
		}
	}
	in.Obj = canon(u.Object)
	return in
}

func genMut(out *proto.Out, rng *proto.Rng, tier string) {
	n := 24000
	if tier == "thorough" {
		n = 200000
	}
	for i := 0; i < n; i++ {
		in := genMutCase(rng, i%25 == 0)
		// round-trip the input through JSON so that gen and replay execute exactly the same thing
		raw, err := json.Marshal(in)
		if err != nil {
			continue
		}
		var in2 mutIn
		if err := json.Unmarshal(raw, &in2); err != nil {
			continue
		}
		out.Emit("mutate", in2, runMut(in2))
	}
}

func init() {
	register("jsonpath", domain{gen: genJP, run: func(raw json.RawMessage) (any, error) {
		var in jpIn
		if err := json.Unmarshal(raw, &in); err != nil {
			return nil, err
		}
		return runJP(in), nil
	}})
	register("mutate", domain{gen: genMut, run: func(raw json.RawMessage) (any, error) {
		var in mutIn
		if err := json.Unmarshal(raw, &in); err != nil {
			return nil, err
		}
		return runMut(in), nil
	}})
}
