package main

// C17 — polling engine, ResourceStatusEqual, AggregateStatus, collector, pod-controller rule.
// Domains: aggregate, rsequal, poll, collector, podctl, readstatus.
//
// The poll domain drives the REAL engine.PollerEngine.Poll with a scripted ClusterReader / StatusReader / RESTMapper.
// Nothing that is compared depends on wall-clock time: the scripted reader hands out snapshot k on the k-th Sync,
// cancels the context itself once the script is exhausted (always from inside the engine's own goroutine, so the
// engine observes the cancellation at a fixed point), and only event sequences are reported.

import (
	"context"
	"encoding/json"
	"errors"
	"fmt"
	"k8s.io/apimachinery/pkg/types"
	"net/url"
	"strconv"
	"sync"
	"time"

	"k8s.io/apimachinery/pkg/api/meta"
	metav1 "k8s.io/apimachinery/pkg/apis/meta/v1"
	"k8s.io/apimachinery/pkg/apis/meta/v1/unstructured"
	"k8s.io/apimachinery/pkg/labels"
	"k8s.io/apimachinery/pkg/runtime/schema"
	"sigs.k8s.io/cli-utils/pkg/kstatus/polling"
	"sigs.k8s.io/cli-utils/pkg/kstatus/polling/aggregator"
	"sigs.k8s.io/cli-utils/pkg/kstatus/polling/collector"
	"sigs.k8s.io/cli-utils/pkg/kstatus/polling/engine"
	"sigs.k8s.io/cli-utils/pkg/kstatus/polling/event"
	"sigs.k8s.io/cli-utils/pkg/kstatus/polling/statusreaders"
	"sigs.k8s.io/cli-utils/pkg/kstatus/status"
	"sigs.k8s.io/cli-utils/pkg/object"
	"sigs.k8s.io/cli-utils/pkg/testutil"
	"sigs.k8s.io/controller-runtime/pkg/client"
	"verif/harness/internal/proto"
)

var c17Statuses = []string{"InProgress", "Failed", "Current", "Terminating", "NotFound", "Unknown"}

// ---------- ResourceStatus <-> JSON ----------

type jrs struct {
	ID  jid     `json:"id"`
	S   string  `json:"s"`
	M   string  `json:"m"`
	G   *int64  `json:"g"`   // null: Resource == nil; else metadata.generation of the resource
	E   *string `json:"e"`   // null: Error == nil; else Error() text
	Gen []jrs   `json:"gen"` // generated resources
}

// scriptErr is the error type of everything the script injects; notFound makes apierrors.IsNotFound true.
type scriptErr struct {
	text     string
	notFound bool
}

func (e *scriptErr) Error() string { return e.text }
func (e *scriptErr) Status() metav1.Status {
	if e.notFound {
		return metav1.Status{Reason: metav1.StatusReasonNotFound, Code: 404}
	}
	return metav1.Status{Reason: metav1.StatusReasonUnknown}
}

func toRS(j jrs) *event.ResourceStatus {
	rs := &event.ResourceStatus{Identifier: fromJid(j.ID), Status: status.Status(j.S), Message: j.M}
	if j.G != nil {
		u := &unstructured.Unstructured{Object: map[string]any{}}
		u.SetName(j.ID[1])
		u.SetNamespace(j.ID[0])
		u.SetKind(j.ID[3])
		u.SetGeneration(*j.G)
		// a resourceVersion/uid that moves only with the generation: what an object whose children or whose LIST
		// of children changed between two polls looks like (the parent revision stays, the status tree does not)
		u.SetResourceVersion(strconv.FormatInt(*j.G+1, 10))
		u.SetUID(types.UID("uid-" + j.ID[1]))
		rs.Resource = u
	}
	if j.E != nil {
		rs.Error = &scriptErr{text: *j.E}
	}
	for _, g := range j.Gen {
		rs.GeneratedResources = append(rs.GeneratedResources, toRS(g))
	}
	return rs
}

func fromRS(rs *event.ResourceStatus) *jrs {
	if rs == nil {
		return nil
	}
	j := &jrs{ID: toJid(rs.Identifier), S: string(rs.Status), M: rs.Message, Gen: []jrs{}}
	if rs.Resource != nil {
		g := rs.Resource.GetGeneration()
		j.G = &g
	}
	if rs.Error != nil {
		t := errText(rs.Error)
		j.E = &t
	}
	for _, g := range rs.GeneratedResources {
		j.Gen = append(j.Gen, *fromRS(g))
	}
	return j
}

// error text as far as it is script data: the text of the scripted error it wraps, else "<engine>" (the code's own wording)
func errText(err error) string {
	var se *scriptErr
	if errors.As(err, &se) {
		return se.text
	}
	return "<engine>"
}

type jerr struct {
	Kind string `json:"kind"` // canceled | deadline | ctxerr | notfound | other
	Text string `json:"text"`
}

// mkErr builds the error value; "ctxerr" is resolved by the caller (cancel + ctx.Err()).
func mkErr(e jerr) error {
	switch e.Kind {
	case "canceled":
		return fmt.Errorf("%s: %w", e.Text, context.Canceled)
	case "deadline":
		return fmt.Errorf("%s: %w", e.Text, context.DeadlineExceeded)
	case "notfound":
		return &scriptErr{text: e.Text, notFound: true}
	default:
		return &scriptErr{text: e.Text}
	}
}

type jevent struct {
	T  string `json:"t"` // update | error | sync
	RS *jrs   `json:"rs,omitempty"`
	E  string `json:"e,omitempty"`
}

// ---------- domain aggregate ----------

type aggIn struct {
	L []string `json:"l"`
	D string   `json:"d"`
}

func runAgg(in aggIn) (out any) {
	defer func() {
		if r := recover(); r != nil {
			out = "panic"
		}
	}()
	rss := make([]*event.ResourceStatus, 0, len(in.L))
	for _, s := range in.L {
		rss = append(rss, &event.ResourceStatus{Status: status.Status(s)})
	}
	return string(aggregator.AggregateStatus(rss, status.Status(in.D)))
}

func genAgg(out *proto.Out, rng *proto.Rng, tier string) {
	maxLen := 4
	if tier == "thorough" {
		maxLen = 5
	}
	lists := [][]string{{}}
	prev := [][]string{{}}
	for l := 1; l <= maxLen; l++ {
		var cur [][]string
		for _, p := range prev {
			for _, s := range c17Statuses {
				cur = append(cur, append(append([]string{}, p...), s))
			}
		}
		lists = append(lists, cur...)
		prev = cur
	}
	for _, l := range lists {
		for _, d := range c17Statuses {
			in := aggIn{L: l, D: d}
			out.Emit("aggregate", in, runAgg(in))
		}
	}
	n := 500
	if tier == "thorough" {
		n = 20000
	}
	for i := 0; i < n; i++ {
		k := 6 + rng.Intn(20)
		in := aggIn{L: []string{}, D: proto.Pick(rng, c17Statuses)}
		// biased pools so that "all desired" and "no failed" happen for long lists too
		pool := c17Statuses
		switch rng.Intn(4) {
		case 0:
			pool = []string{in.D}
		case 1:
			pool = []string{in.D, "Current", "InProgress"}
		case 2:
			pool = []string{in.D, "Unknown", "NotFound", "Terminating"}
		}
		for j := 0; j < k; j++ {
			in.L = append(in.L, proto.Pick(rng, pool))
		}
		out.Emit("aggregate", in, runAgg(in))
	}
}

// ---------- generators of ResourceStatus values ----------

var c17Ids = []jid{
	{"ns", "a", "apps", "Deployment"},
	{"ns", "b", "", "Pod"},
	{"", "c", "", "Namespace"},
	{"ns", "d", "example.com", "Custom"},
}
var c17GenIds = []jid{
	{"ns", "a-rs1", "apps", "ReplicaSet"},
	{"ns", "a-rs2", "apps", "ReplicaSet"},
	{"ns", "p1", "", "Pod"},
	{"ns", "p2", "", "Pod"},
}

func i64p(v int64) *int64   { return &v }
func strp(s string) *string { return &s }

func genRS(rng *proto.Rng, id jid, depth int) jrs {
	r := jrs{ID: id, S: proto.Pick(rng, c17Statuses), Gen: []jrs{}}
	r.M = proto.Pick(rng, []string{"", "", "m1", "m2"})
	switch rng.Intn(5) {
	case 0:
		r.G = nil
	case 1:
		r.G = i64p(0)
	default:
		r.G = i64p(int64(1 + rng.Intn(2)))
	}
	if rng.Chance(1, 5) {
		r.E = strp(proto.Pick(rng, []string{"e1", "e2", ""}))
	}
	if depth > 0 && rng.Chance(2, 5) {
		n := 1 + rng.Intn(2)
		for k := 0; k < n; k++ {
			r.Gen = append(r.Gen, genRS(rng, c17GenIds[(k+2*(2-depth))%len(c17GenIds)], depth-1))
		}
	}
	return r
}

func cloneRS(r jrs) jrs {
	c := r
	if r.G != nil {
		c.G = i64p(*r.G)
	}
	if r.E != nil {
		c.E = strp(*r.E)
	}
	c.Gen = make([]jrs, 0, len(r.Gen))
	for _, g := range r.Gen {
		c.Gen = append(c.Gen, cloneRS(g))
	}
	return c
}

// mutate changes exactly one field somewhere in the tree (possibly one that ResourceStatusEqual does not look at:
// nil resource <-> generation 0).
func mutateRS(rng *proto.Rng, r jrs, depth int) jrs {
	c := cloneRS(r)
	if len(c.Gen) > 0 && rng.Chance(1, 3) {
		k := rng.Intn(len(c.Gen))
		c.Gen[k] = mutateRS(rng, c.Gen[k], depth-1)
		return c
	}
	switch rng.Intn(8) {
	case 0:
		for {
			s := proto.Pick(rng, c17Statuses)
			if s != c.S {
				c.S = s
				break
			}
		}
	case 1:
		c.M = c.M + "x"
	case 2:
		if c.G == nil {
			c.G = i64p(0) // not a change for ResourceStatusEqual
		} else if *c.G == 0 {
			c.G = nil // not a change either
		} else {
			c.G = i64p(*c.G + 1)
		}
	case 3:
		if c.G == nil {
			c.G = i64p(1)
		} else {
			c.G = i64p(*c.G + 1)
		}
	case 4:
		if c.E == nil {
			c.E = strp("e1")
		} else {
			c.E = nil
		}
	case 5:
		if c.E == nil {
			c.E = strp("")
		} else {
			c.E = strp(*c.E + "!")
		}
	case 6:
		if len(c.Gen) > 0 {
			c.Gen = c.Gen[:len(c.Gen)-1]
		} else if depth > 0 {
			c.Gen = append(c.Gen, genRS(rng, c17GenIds[0], 0))
		} else {
			c.M = c.M + "y"
		}
	default:
		if len(c.Gen) >= 2 {
			c.Gen[0], c.Gen[1] = c.Gen[1], c.Gen[0] // order matters: pairwise comparison
		} else {
			c.ID = jid{c.ID[0], c.ID[1] + "2", c.ID[2], c.ID[3]}
		}
	}
	return c
}

// ---------- domain rsequal ----------

type rseqIn struct {
	A jrs `json:"a"`
	B jrs `json:"b"`
}

func runRsEq(in rseqIn) (out map[string]any) {
	defer func() {
		if r := recover(); r != nil {
			out = map[string]any{"panic": true}
		}
	}()
	a, b := toRS(in.A), toRS(in.B)
	return map[string]any{"eq": event.ResourceStatusEqual(a, b), "rev": event.ResourceStatusEqual(b, a),
		"reflA": event.ResourceStatusEqual(a, toRS(in.A)), "panic": false}
}

func genRsEq(out *proto.Out, rng *proto.Rng, tier string) {
	n := 6000
	if tier == "thorough" {
		n = 80000
	}
	for i := 0; i < n; i++ {
		a := genRS(rng, proto.Pick(rng, c17Ids), 2)
		var b jrs
		switch rng.Intn(6) {
		case 0:
			b = cloneRS(a)
		case 1, 2, 3:
			b = mutateRS(rng, a, 2)
		case 4:
			b = mutateRS(rng, mutateRS(rng, a, 2), 2)
		default:
			b = genRS(rng, a.ID, 2)
		}
		in := rseqIn{A: a, B: b}
		out.Emit("rsequal", in, runRsEq(in))
	}
}

// ---------- domain poll ----------

type jsync struct {
	K string `json:"k"` // ok | okcancel | fail
	E *jerr  `json:"e,omitempty"`
}
type jread struct {
	ID jid    `json:"id"`
	K  string `json:"k"` // ok | okcancel | fail
	RS *jrs   `json:"rs,omitempty"`
	E  *jerr  `json:"e,omitempty"`
}
type jpoll struct {
	Sync  jsync   `json:"sync"`
	Reads []jread `json:"reads"`
}
type pollIn struct {
	IDs        []jid       `json:"ids"`
	Scopes     [][3]string `json:"scopes"` // [group, kind, ns|cluster|nomatch|err:<text>]; unlisted = nomatch
	FactoryErr *string     `json:"factoryErr"`
	UseList    bool        `json:"useList"` // put the scripted reader into StatusReaders instead of DefaultStatusReader
	Polls      []jpoll     `json:"polls"`
	// the caller's context is a WithCancelCause context and is cancelled with a cause of its own (ctx.Err() is still
	// context.Canceled; context.Cause(ctx) is not)
	Cause bool `json:"cause,omitempty"`
}

// scriptMapper answers RESTMapping from the script; nothing else is used by the engine.
type scriptMapper struct{ scopes map[schema.GroupKind]string }

func (m *scriptMapper) RESTMapping(gk schema.GroupKind, versions ...string) (*meta.RESTMapping, error) {
	sc, ok := m.scopes[gk]
	if !ok || sc == "nomatch" {
		return nil, &meta.NoKindMatchError{GroupKind: gk}
	}
	if len(sc) > 4 && sc[:4] == "err:" {
		return nil, &scriptErr{text: sc[4:]}
	}
	mp := &meta.RESTMapping{GroupVersionKind: gk.WithVersion("v1"), Resource: gk.WithVersion("v1").GroupVersion().WithResource("x")}
	if sc == "ns" {
		mp.Scope = meta.RESTScopeNamespace
	} else {
		mp.Scope = meta.RESTScopeRoot
	}
	return mp, nil
}
func (m *scriptMapper) KindFor(schema.GroupVersionResource) (schema.GroupVersionKind, error) {
	return schema.GroupVersionKind{}, errors.New("unused")
}
func (m *scriptMapper) KindsFor(schema.GroupVersionResource) ([]schema.GroupVersionKind, error) {
	return nil, errors.New("unused")
}
func (m *scriptMapper) ResourceFor(schema.GroupVersionResource) (schema.GroupVersionResource, error) {
	return schema.GroupVersionResource{}, errors.New("unused")
}
func (m *scriptMapper) ResourcesFor(schema.GroupVersionResource) ([]schema.GroupVersionResource, error) {
	return nil, errors.New("unused")
}
func (m *scriptMapper) RESTMappings(schema.GroupKind, ...string) ([]*meta.RESTMapping, error) {
	return nil, errors.New("unused")
}
func (m *scriptMapper) ResourceSingularizer(string) (string, error) { return "", errors.New("unused") }

// scriptReader is the ClusterReader: Sync number k (1-based) makes poll k-1 of the script current.
type scriptReader struct {
	polls  []jpoll
	k      int // index of the current poll; -1 before the first Sync
	cancel context.CancelFunc
	reads  map[int]map[object.ObjMetadata]jread
}

func (r *scriptReader) Get(context.Context, client.ObjectKey, *unstructured.Unstructured) error {
	return errors.New("unused")
}
func (r *scriptReader) ListNamespaceScoped(context.Context, *unstructured.UnstructuredList, string, labels.Selector) error {
	return errors.New("unused")
}
func (r *scriptReader) ListClusterScoped(context.Context, *unstructured.UnstructuredList, labels.Selector) error {
	return errors.New("unused")
}
func (r *scriptReader) Sync(ctx context.Context) error {
	if err := ctx.Err(); err != nil {
		return err
	}
	r.k++
	if r.k >= len(r.polls) {
		// script exhausted: the caller cancels
		r.cancel()
		return ctx.Err()
	}
	s := r.polls[r.k].Sync
	switch s.K {
	case "okcancel":
		r.cancel()
		return nil
	case "fail":
		if s.E.Kind == "ctxerr" {
			r.cancel()
			return ctx.Err()
		}
		return mkErr(*s.E)
	}
	return nil
}

// scriptStatusReader is the StatusReader; it answers from the current poll of the scriptReader it is handed.
type scriptStatusReader struct{}

func (scriptStatusReader) Supports(schema.GroupKind) bool { return true }
func (scriptStatusReader) ReadStatus(ctx context.Context, reader engine.ClusterReader, id object.ObjMetadata) (*event.ResourceStatus, error) {
	r := reader.(*scriptReader)
	rd, ok := r.reads[r.k][id]
	if !ok {
		return nil, &scriptErr{text: "unscripted read"}
	}
	switch rd.K {
	case "fail":
		if rd.E.Kind == "ctxerr" {
			r.cancel()
			return nil, ctx.Err()
		}
		return nil, mkErr(*rd.E)
	case "okcancel":
		r.cancel()
	}
	return toRS(*rd.RS), nil
}
func (scriptStatusReader) ReadStatusForObject(context.Context, engine.ClusterReader, *unstructured.Unstructured) (*event.ResourceStatus, error) {
	return nil, errors.New("unused")
}

var c17Timeouts int32
var c17TimeoutMu sync.Mutex

func runPoll(in pollIn) (out map[string]any) {
	defer func() {
		if r := recover(); r != nil {
			out = map[string]any{"events": []map[string]any{}, "closed": false, "panic": fmt.Sprint(r)}
		}
	}()
	ctx, cancel := context.WithCancel(context.Background())
	if in.Cause {
		c2, cancelCause := context.WithCancelCause(context.Background())
		ctx, cancel = c2, func() { cancelCause(errors.New("the caller gave up (custom cause)")) }
	}
	defer cancel()
	sr := &scriptReader{polls: in.Polls, k: -1, cancel: cancel, reads: map[int]map[object.ObjMetadata]jread{}}
	for k, p := range in.Polls {
		sr.reads[k] = map[object.ObjMetadata]jread{}
		for _, rd := range p.Reads {
			sr.reads[k][fromJid(rd.ID)] = rd
		}
	}
	mp := &scriptMapper{scopes: map[schema.GroupKind]string{}}
	for _, s := range in.Scopes {
		mp.scopes[schema.GroupKind{Group: s[0], Kind: s[1]}] = s[2]
	}
	eng := &engine.PollerEngine{
		Mapper: mp,
		ClusterReaderFactory: engine.ClusterReaderFactoryFunc(func(client.Reader, meta.RESTMapper, object.ObjMetadataSet) (engine.ClusterReader, error) {
			if in.FactoryErr != nil {
				return nil, &scriptErr{text: *in.FactoryErr}
			}
			return sr, nil
		}),
	}
	if in.UseList {
		eng.StatusReaders = []engine.StatusReader{scriptStatusReader{}}
	} else {
		eng.DefaultStatusReader = scriptStatusReader{}
	}
	ch := eng.Poll(ctx, fromJids(in.IDs), engine.Options{PollInterval: 50 * time.Microsecond})
	events := []map[string]any{}
	closed := false
	c17TimeoutMu.Lock()
	limit := 30 * time.Second
	if c17Timeouts >= 3 {
		limit = 300 * time.Millisecond
	}
	c17TimeoutMu.Unlock()
	timer := time.NewTimer(limit)
	defer timer.Stop()
loop:
	for {
		select {
		case e, ok := <-ch:
			if !ok {
				closed = true
				break loop
			}
			switch e.Type {
			case event.ResourceUpdateEvent:
				events = append(events, map[string]any{"t": "update", "rs": fromRS(e.Resource)})
			case event.ErrorEvent:
				events = append(events, map[string]any{"t": "error", "e": errText(e.Error)})
			default:
				events = append(events, map[string]any{"t": "sync"})
			}
			if len(events) > 10000 {
				break loop
			}
		case <-timer.C:
			c17TimeoutMu.Lock()
			c17Timeouts++
			c17TimeoutMu.Unlock()
			break loop
		}
	}
	if !closed {
		cancel()
		go func() { // drain so the engine goroutine can finish
			for range ch {
			}
		}()
	}
	return map[string]any{"events": events, "closed": closed, "panic": nil}
}

var c17Scopes = [][3]string{{"apps", "Deployment", "ns"}, {"", "Pod", "ns"}, {"", "Namespace", "cluster"}}

// genPollCase builds one script. mode: 0 plain run to exhaustion; 1 sync disturbance; 2 read disturbance; 3 setup error; 4 mis-identified status
func genPollCase(rng *proto.Rng, nIDs, nPolls, mode int) pollIn {
	in := pollIn{IDs: []jid{}, Scopes: c17Scopes, UseList: rng.Bool(), Polls: []jpoll{}, Cause: rng.Chance(1, 3)}
	perm := []int{0, 1, 2, 3}
	for i := len(perm) - 1; i > 0; i-- {
		j := rng.Intn(i + 1)
		perm[i], perm[j] = perm[j], perm[i]
	}
	for k := 0; k < nIDs; k++ {
		in.IDs = append(in.IDs, c17Ids[perm[k]])
	}
	if nIDs > 0 && rng.Chance(1, 12) {
		in.IDs = append(in.IDs, in.IDs[rng.Intn(len(in.IDs))]) // a repeated identifier
	}
	cur := map[jid]jrs{}
	distinct := []jid{}
	for _, id := range in.IDs {
		if _, ok := cur[id]; !ok {
			cur[id] = genRS(rng, id, 2)
			distinct = append(distinct, id)
		}
	}
	for k := 0; k < nPolls; k++ {
		p := jpoll{Sync: jsync{K: "ok"}, Reads: []jread{}}
		for _, id := range distinct {
			if k > 0 {
				switch rng.Intn(8) {
				case 0, 1, 2, 3: // unchanged
				case 4, 5, 6:
					cur[id] = mutateRS(rng, cur[id], 2)
					c := cur[id]
					c.ID = id
					cur[id] = c
				default:
					cur[id] = genRS(rng, id, 2)
				}
			}
			// typical shapes: not found / read error as produced by errIdentifierToResourceStatus
			if rng.Chance(1, 10) {
				cur[id] = jrs{ID: id, S: "NotFound", M: "Resource not found", Gen: []jrs{}}
			} else if rng.Chance(1, 12) {
				cur[id] = jrs{ID: id, S: "Unknown", E: strp(proto.Pick(rng, []string{"e1", "e2"})), Gen: []jrs{}}
			}
			r := cloneRS(cur[id])
			p.Reads = append(p.Reads, jread{ID: id, K: "ok", RS: &r})
		}
		in.Polls = append(in.Polls, p)
	}
	errKinds := []string{"canceled", "deadline", "ctxerr", "other", "other", "notfound"}
	switch mode {
	case 1:
		if nPolls > 0 {
			k := rng.Intn(nPolls)
			if rng.Chance(1, 4) {
				in.Polls[k].Sync = jsync{K: "okcancel"}
			} else {
				in.Polls[k].Sync = jsync{K: "fail", E: &jerr{Kind: proto.Pick(rng, errKinds), Text: "sync-" + fmt.Sprint(k)}}
			}
		}
	case 2:
		if nPolls > 0 && len(distinct) > 0 {
			k := rng.Intn(nPolls)
			j := rng.Intn(len(distinct))
			if rng.Chance(1, 3) {
				in.Polls[k].Reads[j].K = "okcancel"
			} else {
				in.Polls[k].Reads[j] = jread{ID: distinct[j], K: "fail", E: &jerr{Kind: proto.Pick(rng, errKinds), Text: "read-" + fmt.Sprint(k)}}
			}
		}
	case 3:
		switch rng.Intn(3) {
		case 0:
			in.FactoryErr = strp("factory")
		case 1:
			// a namespaced kind without namespace
			in.IDs = append(in.IDs, jid{"", "nons", "apps", "Deployment"})
			for k := range in.Polls {
				r := genRS(rng, jid{"", "nons", "apps", "Deployment"}, 0)
				in.Polls[k].Reads = append(in.Polls[k].Reads, jread{ID: jid{"", "nons", "apps", "Deployment"}, K: "ok", RS: &r})
			}
		default:
			in.Scopes = append(append([][3]string{}, c17Scopes...), [3]string{"example.com", "Custom", "err:mapper"})
			if nIDs < 4 {
				in.IDs = append(in.IDs, c17Ids[3])
				for k := range in.Polls {
					r := genRS(rng, c17Ids[3], 0)
					in.Polls[k].Reads = append(in.Polls[k].Reads, jread{ID: c17Ids[3], K: "ok", RS: &r})
				}
			}
		}
	case 4:
		// the reader answers with a status carrying another identifier (does not happen with the real readers)
		if nPolls > 0 && len(distinct) > 0 {
			k := rng.Intn(nPolls)
			j := rng.Intn(len(distinct))
			if in.Polls[k].Reads[j].RS != nil {
				in.Polls[k].Reads[j].RS.ID = proto.Pick(rng, c17Ids)
			}
		}
	}
	return in
}

func genPoll(out *proto.Out, rng *proto.Rng, tier string) {
	var cases []pollIn
	// (a) exhaustive tiny block: one resource, every sequence of length 1..4 over three variants A, A' (equal for
	// ResourceStatusEqual: nil resource vs generation 0), B — and every prefix-ending mode
	id := c17Ids[0]
	A := jrs{ID: id, S: "InProgress", M: "m", Gen: []jrs{{ID: c17GenIds[0], S: "InProgress", Gen: []jrs{}}}}
	A2 := cloneRS(A)
	A2.G = i64p(0)
	B := cloneRS(A)
	B.Gen[0].S = "Current"
	vars := []jrs{A, A2, B}
	maxSeq := 4
	if tier == "thorough" {
		maxSeq = 5
	}
	var seqs [][]int
	var rec func(cur []int)
	rec = func(cur []int) {
		if len(cur) > 0 {
			seqs = append(seqs, append([]int{}, cur...))
		}
		if len(cur) == maxSeq {
			return
		}
		for v := 0; v < 3; v++ {
			rec(append(cur, v))
		}
	}
	rec(nil)
	endings := []string{"exhaust", "sync-other", "sync-canceled", "sync-ctxerr", "sync-okcancel", "read-other", "read-deadline", "read-okcancel"}
	for _, sq := range seqs {
		for ei, ending := range endings {
			if tier != "thorough" && len(sq) == maxSeq && ei != (sq[0]+sq[1]*3+sq[2])%len(endings) && ei != 0 {
				continue
			}
			in := pollIn{IDs: []jid{id}, Scopes: c17Scopes, Polls: []jpoll{}}
			for _, v := range sq {
				r := cloneRS(vars[v])
				in.Polls = append(in.Polls, jpoll{Sync: jsync{K: "ok"}, Reads: []jread{{ID: id, K: "ok", RS: &r}}})
			}
			last := len(in.Polls) - 1
			switch ending {
			case "sync-other":
				in.Polls[last].Sync = jsync{K: "fail", E: &jerr{Kind: "other", Text: "boom"}}
			case "sync-canceled":
				in.Polls[last].Sync = jsync{K: "fail", E: &jerr{Kind: "canceled", Text: "c"}}
			case "sync-ctxerr":
				in.Polls[last].Sync = jsync{K: "fail", E: &jerr{Kind: "ctxerr", Text: "c"}}
			case "sync-okcancel":
				in.Polls[last].Sync = jsync{K: "okcancel"}
			case "read-other":
				in.Polls[last].Reads[0] = jread{ID: id, K: "fail", E: &jerr{Kind: "other", Text: "boom"}}
			case "read-deadline":
				in.Polls[last].Reads[0] = jread{ID: id, K: "fail", E: &jerr{Kind: "deadline", Text: "d"}}
			case "read-okcancel":
				in.Polls[last].Reads[0].K = "okcancel"
			}
			cases = append(cases, in)
		}
	}
	// (b) zero resources / zero polls
	cases = append(cases, pollIn{IDs: []jid{}, Scopes: c17Scopes, Polls: []jpoll{}})
	cases = append(cases, pollIn{IDs: []jid{}, Scopes: c17Scopes, Polls: []jpoll{{Sync: jsync{K: "ok"}, Reads: []jread{}}, {Sync: jsync{K: "okcancel"}, Reads: []jread{}}, {Sync: jsync{K: "ok"}, Reads: []jread{}}}})
	// (c) random scripts
	n := 10000
	if tier == "thorough" {
		n = 150000
	}
	for i := 0; i < n; i++ {
		nIDs := 1 + rng.Intn(3)
		nPolls := 1 + rng.Intn(6)
		mode := 0
		switch v := rng.Intn(20); {
		case v < 8:
			mode = 0
		case v < 12:
			mode = 1
		case v < 17:
			mode = 2
		case v < 19:
			mode = 3
		default:
			mode = 4
		}
		cases = append(cases, genPollCase(rng, nIDs, nPolls, mode))
	}
	// run on a few workers (each case is independent and its result does not depend on timing); emit in order
	results := make([]map[string]any, len(cases))
	var wg sync.WaitGroup
	idx := make(chan int)
	for w := 0; w < 6; w++ {
		wg.Add(1)
		go func() {
			defer wg.Done()
			for i := range idx {
				results[i] = runPoll(cases[i])
			}
		}()
	}
	for i := range cases {
		idx <- i
	}
	close(idx)
	wg.Wait()
	for i := range cases {
		out.Emit("poll", cases[i], results[i])
	}
}

// ---------- domain collector ----------

type collIn struct {
	IDs    []jid    `json:"ids"`
	Events []jevent `json:"events"`
}

func runCollector(in collIn) (out map[string]any) {
	defer func() {
		if r := recover(); r != nil {
			out = map[string]any{"panic": fmt.Sprint(r)}
		}
	}()
	c := collector.NewResourceStatusCollector(fromJids(in.IDs))
	ch := make(chan event.Event)
	done := c.Listen(ch)
	var results int
	fin := make(chan struct{})
	go func() {
		for range done {
			results++
		}
		close(fin)
	}()
	for _, e := range in.Events {
		switch e.T {
		case "update":
			ch <- event.Event{Type: event.ResourceUpdateEvent, Resource: toRS(*e.RS)}
		case "error":
			ch <- event.Event{Type: event.ErrorEvent, Error: &scriptErr{text: e.E}}
		default:
			ch <- event.Event{Type: event.SyncEvent}
		}
	}
	close(ch)
	<-fin
	obs := c.LatestObservation()
	sts := []jrs{}
	for _, rs := range obs.ResourceStatuses {
		sts = append(sts, *fromRS(rs))
	}
	var e any
	if obs.Error != nil {
		e = errText(obs.Error)
	}
	lt := "update"
	switch obs.LastEventType {
	case event.ErrorEvent:
		lt = "error"
	case event.SyncEvent:
		lt = "sync"
	}
	return map[string]any{"lastType": lt, "statuses": sts, "error": e, "listenerErrors": results, "panic": nil}
}

func genCollector(out *proto.Out, rng *proto.Rng, tier string) {
	n := 3000
	if tier == "thorough" {
		n = 40000
	}
	for i := 0; i < n; i++ {
		in := collIn{IDs: []jid{}, Events: []jevent{}}
		for _, id := range c17Ids {
			if rng.Chance(1, 2) {
				in.IDs = append(in.IDs, id)
			}
		}
		k := rng.Intn(9)
		for j := 0; j < k; j++ {
			switch rng.Intn(10) {
			case 0:
				in.Events = append(in.Events, jevent{T: "error", E: "err" + fmt.Sprint(j)})
			case 1:
				in.Events = append(in.Events, jevent{T: "sync"})
			default:
				r := genRS(rng, proto.Pick(rng, c17Ids), 1)
				in.Events = append(in.Events, jevent{T: "update", RS: &r})
			}
		}
		out.Emit("collector", in, runCollector(in))
	}
}

// ---------- domain podctl ----------

type podctlIn struct {
	ID  jid   `json:"id"`
	Gen int64 `json:"gen"`
	G   struct {
		K    string `json:"k"` // ok | fail
		Pods []jrs  `json:"pods"`
		E    *jerr  `json:"e,omitempty"`
	} `json:"g"`
	C struct {
		K string `json:"k"` // ok | fail
		S string `json:"s"`
		M string `json:"m"`
		E *jerr  `json:"e,omitempty"`
	} `json:"c"`
}

func runPodctl(in podctlIn) (out map[string]any) {
	defer func() {
		if r := recover(); r != nil {
			out = map[string]any{"panic": fmt.Sprint(r)}
		}
	}()
	obj := &unstructured.Unstructured{Object: map[string]any{}}
	obj.SetGroupVersionKind(schema.GroupVersionKind{Group: in.ID[2], Version: "v1", Kind: in.ID[3]})
	obj.SetName(in.ID[1])
	obj.SetNamespace(in.ID[0])
	obj.SetGeneration(in.Gen)
	var pods event.ResourceStatuses
	var genErr, resErr error
	ctx, cancel := context.WithCancel(context.Background())
	defer cancel()
	mk := func(e *jerr) error {
		if e.Kind == "ctxerr" {
			cancel()
			return ctx.Err()
		}
		return mkErr(*e)
	}
	if in.G.K == "ok" {
		for _, p := range in.G.Pods {
			pods = append(pods, toRS(p))
		}
	} else {
		genErr = mk(in.G.E)
	}
	var res *status.Result
	if in.C.K == "ok" {
		res = &status.Result{Status: status.Status(in.C.S), Message: in.C.M}
	} else {
		resErr = mk(in.C.E)
	}
	rs, err := statusreaders.VerifPodControllerReadStatus(ctx, obj, pods, genErr, res, resErr)
	o := map[string]any{"rs": fromRS(rs), "err": nil, "panic": nil}
	if err != nil {
		kind := "other"
		if errors.Is(err, context.Canceled) || errors.Is(err, context.DeadlineExceeded) {
			kind = "ctx"
		}
		o["err"] = kind
	}
	return o
}

func genPodctl(out *proto.Out, rng *proto.Rng, tier string) {
	n := 3000
	if tier == "thorough" {
		n = 40000
	}
	errKinds := []string{"canceled", "deadline", "ctxerr", "other", "notfound"}
	for i := 0; i < n; i++ {
		var in podctlIn
		in.ID = jid{"ns", "rs", "apps", "ReplicaSet"}
		in.Gen = int64(rng.Intn(3))
		in.G.K = "ok"
		in.G.Pods = []jrs{}
		if rng.Chance(1, 6) {
			in.G.K = "fail"
			in.G.E = &jerr{Kind: proto.Pick(rng, errKinds), Text: "list failed"}
		}
		k := rng.Intn(5)
		pool := c17Statuses
		if rng.Bool() {
			pool = []string{"Current", "InProgress", "Failed"}
		}
		for j := 0; j < k; j++ {
			p := genRS(rng, jid{"ns", "p" + fmt.Sprint(j), "", "Pod"}, 0)
			p.S = proto.Pick(rng, pool)
			in.G.Pods = append(in.G.Pods, p)
		}
		in.C.K = "ok"
		in.C.S = proto.Pick(rng, []string{"InProgress", "InProgress", "Current", "Failed", "Terminating", "Unknown", "NotFound"})
		in.C.M = proto.Pick(rng, []string{"", "rolling out", "1 pods have failed"})
		if rng.Chance(1, 6) {
			in.C.K = "fail"
			in.C.E = &jerr{Kind: proto.Pick(rng, errKinds), Text: "compute failed"}
		}
		out.Emit("podctl", in, runPodctl(in))
	}
}

// ---------- domain readstatus ----------
// the real generic status reader (baseStatusReader + genericStatusReader): mapper lookup, Get, status function

type readIn struct {
	ID     jid    `json:"id"`
	Mapper string `json:"mapper"` // ok | nomatch | err:<text>
	Get    struct {
		K   string `json:"k"` // ok | fail
		Gen int64  `json:"gen"`
		E   *jerr  `json:"e,omitempty"`
	} `json:"get"`
	C struct {
		K string `json:"k"` // ok | fail
		S string `json:"s"`
		M string `json:"m"`
		E *jerr  `json:"e,omitempty"`
	} `json:"c"`
}

type getReader struct {
	scriptReader
	get func(ctx context.Context, key client.ObjectKey, obj *unstructured.Unstructured) error
}

func (r *getReader) Get(ctx context.Context, key client.ObjectKey, obj *unstructured.Unstructured) error {
	return r.get(ctx, key, obj)
}

func runReadStatus(in readIn) (out map[string]any) {
	defer func() {
		if r := recover(); r != nil {
			out = map[string]any{"panic": fmt.Sprint(r)}
		}
	}()
	ctx, cancel := context.WithCancel(context.Background())
	defer cancel()
	mk := func(e *jerr) error {
		if e.Kind == "ctxerr" {
			cancel()
			return ctx.Err()
		}
		return mkErr(*e)
	}
	mp := &scriptMapper{scopes: map[schema.GroupKind]string{}}
	if in.Mapper == "ok" {
		mp.scopes[schema.GroupKind{Group: in.ID[2], Kind: in.ID[3]}] = "ns"
	} else if in.Mapper != "nomatch" {
		mp.scopes[schema.GroupKind{Group: in.ID[2], Kind: in.ID[3]}] = in.Mapper
	}
	rd := &getReader{get: func(ctx context.Context, key client.ObjectKey, obj *unstructured.Unstructured) error {
		if in.Get.K != "ok" {
			return mk(in.Get.E)
		}
		obj.SetName(key.Name)
		obj.SetNamespace(key.Namespace)
		obj.SetGeneration(in.Get.Gen)
		return nil
	}}
	sr := statusreaders.NewGenericStatusReader(mp, func(*unstructured.Unstructured) (*status.Result, error) {
		if in.C.K != "ok" {
			return nil, mk(in.C.E)
		}
		return &status.Result{Status: status.Status(in.C.S), Message: in.C.M}, nil
	})
	rs, err := sr.ReadStatus(ctx, rd, fromJid(in.ID))
	o := map[string]any{"rs": fromRS(rs), "err": nil, "panic": nil}
	if err != nil {
		kind := "other"
		if errors.Is(err, context.Canceled) || errors.Is(err, context.DeadlineExceeded) {
			kind = "ctx"
		}
		o["err"] = kind
	}
	return o
}

func genReadStatus(out *proto.Out, rng *proto.Rng, tier string) {
	errKinds := []string{"canceled", "deadline", "ctxerr", "other", "notfound"}
	for _, mapper := range []string{"ok", "ok", "ok", "nomatch", "err:mapper"} {
		for _, gk := range append([]string{"ok"}, errKinds...) {
			for _, ck := range append([]string{"ok"}, errKinds...) {
				for _, st := range c17Statuses {
					var in readIn
					in.ID = proto.Pick(rng, c17Ids)
					in.Mapper = mapper
					in.Get.K = "ok"
					in.Get.Gen = int64(rng.Intn(3))
					if gk != "ok" {
						in.Get.K = "fail"
						in.Get.E = &jerr{Kind: gk, Text: "get failed"}
					}
					in.C.K = "ok"
					in.C.S = st
					in.C.M = proto.Pick(rng, []string{"", "msg"})
					if ck != "ok" {
						in.C.K = "fail"
						in.C.E = &jerr{Kind: ck, Text: "compute failed"}
					}
					out.Emit("readstatus", in, runReadStatus(in))
				}
			}
		}
	}
}

func init() {
	register("readstatus", domain{gen: genReadStatus, run: func(raw json.RawMessage) (any, error) {
		var in readIn
		if err := json.Unmarshal(raw, &in); err != nil {
			return nil, err
		}
		return runReadStatus(in), nil
	}})
	register("aggregate", domain{gen: genAgg, run: func(raw json.RawMessage) (any, error) {
		var in aggIn
		if err := json.Unmarshal(raw, &in); err != nil {
			return nil, err
		}
		return runAgg(in), nil
	}})
	register("rsequal", domain{gen: genRsEq, run: func(raw json.RawMessage) (any, error) {
		var in rseqIn
		if err := json.Unmarshal(raw, &in); err != nil {
			return nil, err
		}
		return runRsEq(in), nil
	}})
	register("poll", domain{gen: genPoll, run: func(raw json.RawMessage) (any, error) {
		var in pollIn
		if err := json.Unmarshal(raw, &in); err != nil {
			return nil, err
		}
		return runPoll(in), nil
	}})
	register("collector", domain{gen: genCollector, run: func(raw json.RawMessage) (any, error) {
		var in collIn
		if err := json.Unmarshal(raw, &in); err != nil {
			return nil, err
		}
		return runCollector(in), nil
	}})
	register("podctl", domain{gen: genPodctl, run: func(raw json.RawMessage) (any, error) {
		var in podctlIn
		if err := json.Unmarshal(raw, &in); err != nil {
			return nil, err
		}
		return runPodctl(in), nil
	}})
}

// ---------------------------------------------------------------------------------------------------------------------
// domain pollcache: the REAL polling.NewStatusPoller (engine + default CachingClusterReader + default status readers)
// over a client.Reader stand-in whose k-th LIST blocks until the context ends and then fails with the context's error
// (bare, or wrapped the way an HTTP client wraps it). C17: cancellation / deadline at ANY point of a poll — in
// particular while the cluster reader is listing — closes the channel WITHOUT an error event.

type pollCacheIn struct {
	IDs     []jid  `json:"ids"`
	BlockAt int    `json:"blockAt"` // index of the LIST call that blocks (-1: none; the context ends between two polls)
	End     string `json:"end"`     // "cancel" | "deadline"
	Wrap    string `json:"wrap"`    // "bare" | "url" | "fmtw"
}

type blockingReader struct {
	mu      sync.Mutex
	lists   int
	blockAt int
	wrap    string
	reached chan struct{}
	once    sync.Once
}

func (r *blockingReader) Get(_ context.Context, key client.ObjectKey, _ client.Object, _ ...client.GetOption) error {
	return apierrorsNotFound(key.Name)
}

func apierrorsNotFound(name string) error {
	return &scriptErr{text: "not found: " + name, notFound: true}
}

func (r *blockingReader) List(ctx context.Context, _ client.ObjectList, _ ...client.ListOption) error {
	r.mu.Lock()
	k := r.lists
	r.lists++
	r.mu.Unlock()
	if r.blockAt >= 0 && k >= r.blockAt {
		r.once.Do(func() { close(r.reached) })
		<-ctx.Done()
		err := ctx.Err()
		switch r.wrap {
		case "url":
			return &url.Error{Op: "Get", URL: "https://cluster/api", Err: err}
		case "fmtw":
			return fmt.Errorf("list failed: %w", err)
		}
		return err
	}
	return nil
}

func runPollCache(in pollCacheIn) (out map[string]any) {
	defer func() {
		if r := recover(); r != nil {
			out = map[string]any{"panic": fmt.Sprint(r)}
		}
	}()
	mapper := testutil.NewFakeRESTMapper(
		schema.GroupVersionKind{Group: "", Version: "v1", Kind: "ConfigMap"},
		schema.GroupVersionKind{Group: "", Version: "v1", Kind: "Pod"},
		schema.GroupVersionKind{Group: "apps", Version: "v1", Kind: "Deployment"},
		schema.GroupVersionKind{Group: "apps", Version: "v1", Kind: "ReplicaSet"},
	)
	rd := &blockingReader{blockAt: in.BlockAt, wrap: in.Wrap, reached: make(chan struct{})}
	poller := polling.NewStatusPoller(rd, mapper, polling.Options{})
	ctx, cancel := ctxWithCause()
	defer cancel()
	if in.End == "deadline" {
		var c2 context.CancelFunc
		ctx, c2 = context.WithTimeout(ctx, 30*time.Millisecond)
		defer c2()
	}
	ch := poller.Poll(ctx, fromJids(in.IDs), polling.PollOptions{PollInterval: time.Millisecond})
	go func() {
		if in.End != "cancel" {
			return
		}
		if in.BlockAt >= 0 {
			select {
			case <-rd.reached:
			case <-time.After(2 * time.Second):
			}
		} else {
			time.Sleep(5 * time.Millisecond)
		}
		cancel()
	}()
	errs, updates := 0, 0
	closed := false
	tmo := time.After(5 * time.Second)
loop:
	for {
		select {
		case e, ok := <-ch:
			if !ok {
				closed = true
				break loop
			}
			if e.Type == event.ErrorEvent {
				errs++
			} else {
				updates++
			}
		case <-tmo:
			break loop
		}
	}
	return map[string]any{"closed": closed, "errorEvents": errs, "panic": nil}
}

func genPollCache(out *proto.Out, rng *proto.Rng, tier string) {
	idSets := [][]jid{
		{{"ns1", "a", "", "ConfigMap"}},
		{{"ns1", "a", "", "ConfigMap"}, {"ns2", "b", "", "ConfigMap"}},
		{{"ns1", "d", "apps", "Deployment"}},
		{{"ns1", "d", "apps", "Deployment"}, {"ns1", "a", "", "ConfigMap"}},
	}
	var cases []pollCacheIn
	for _, ids := range idSets {
		for _, end := range []string{"cancel", "deadline"} {
			for _, wrap := range []string{"bare", "url", "fmtw"} {
				for _, k := range []int{-1, 0, 1, 2, 3, 5, 8} {
					cases = append(cases, pollCacheIn{IDs: ids, BlockAt: k, End: end, Wrap: wrap})
				}
			}
		}
	}
	res := make([]map[string]any, len(cases))
	var wg sync.WaitGroup
	sem := make(chan struct{}, 16)
	for i := range cases {
		wg.Add(1)
		sem <- struct{}{}
		go func(i int) {
			defer wg.Done()
			defer func() { <-sem }()
			res[i] = runPollCache(cases[i])
		}(i)
	}
	wg.Wait()
	for i := range cases {
		out.Emit("pollcache", cases[i], res[i])
	}
	_ = rng
	_ = tier
}

func init() {
	register("pollcache", domain{gen: genPollCache, run: func(raw json.RawMessage) (any, error) {
		var in pollCacheIn
		if err := json.Unmarshal(raw, &in); err != nil {
			return nil, err
		}
		return runPollCache(in), nil
	}})
}
