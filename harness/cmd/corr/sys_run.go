package main

// System-level harness: a REAL Applier / Destroyer assembled through the exported builder over the stateful fake cluster,
// with a scripted status watcher that imposes a deterministic schedule.

import (
	"context"
	"encoding/json"
	"errors"
	"fmt"
	"k8s.io/apimachinery/pkg/runtime/schema"
	"net/http"
	"os"
	"sort"
	"strings"
	"sync"
	"sync/atomic"
	"time"

	"k8s.io/apimachinery/pkg/api/meta"
	metav1 "k8s.io/apimachinery/pkg/apis/meta/v1"
	"k8s.io/apimachinery/pkg/apis/meta/v1/unstructured"
	"k8s.io/cli-runtime/pkg/resource"
	"k8s.io/client-go/dynamic"
	"k8s.io/client-go/rest/fake"
	cmdtesting "k8s.io/kubectl/pkg/cmd/testing"
	"sigs.k8s.io/cli-utils/pkg/apply"
	"sigs.k8s.io/cli-utils/pkg/apply/event"
	"sigs.k8s.io/cli-utils/pkg/common"
	"sigs.k8s.io/cli-utils/pkg/inventory"
	pollevent "sigs.k8s.io/cli-utils/pkg/kstatus/polling/event"
	"sigs.k8s.io/cli-utils/pkg/kstatus/status"
	"sigs.k8s.io/cli-utils/pkg/kstatus/watcher"
	"sigs.k8s.io/cli-utils/pkg/object"
	"sigs.k8s.io/cli-utils/pkg/object/validation"
	"verif/harness/internal/fakecluster"
)

// ---------- input ----------

type sysObj struct {
	ID      jid    `json:"id"`
	Deps    []jid  `json:"deps,omitempty"`    // depends-on annotation (well-formed references)
	DepsRaw string `json:"depsRaw,omitempty"` // literal depends-on annotation value (for malformed ones)
	Keep    bool   `json:"keep,omitempty"`    // cli-utils.sigs.k8s.io/on-remove: keep
	Detach  bool   `json:"detach,omitempty"`  // client.lifecycle.config.k8s.io/deletion: detach
	Rev     int    `json:"rev,omitempty"`     // content revision (data.rev)
	MutFrom *jid   `json:"mutFrom,omitempty"` // apply-time mutation source
	MutExt  bool   `json:"mutExt,omitempty"`  // the mutation annotation lists an external source (ns1/absent) before MutFrom
	MutBad  bool   `json:"mutBad,omitempty"`  // a second substitution from the same source follows, whose source path matches nothing: rejected after the first one was written
	Owner   string `json:"owner,omitempty"`   // only for pre-existing objects: owning-inventory annotation value
}

type sysOpts struct {
	NoPrune     bool `json:"noPrune,omitempty"`
	Policy      int  `json:"policy,omitempty"` // 0 MustMatch 1 AdoptIfNoInventory 2 AdoptAll
	Dry         int  `json:"dry,omitempty"`    // 0 none 1 client 2 server
	SkipInvalid bool `json:"skipInvalid,omitempty"`
	SSA         bool `json:"ssa,omitempty"`
	Timeout     bool `json:"timeout,omitempty"` // reconcile + prune timeouts configured (short real duration)
	EmitStatus  bool `json:"emitStatus,omitempty"`
	Foreground  bool `json:"foreground,omitempty"`  // propagation policy Foreground instead of the default Background
	StatusAll   bool `json:"statusAll,omitempty"`   // inventory client built with StatusPolicyAll
	PropDefault bool `json:"propDefault,omitempty"` // propagation policy not set by the caller (the library defaults it to Background)
}

// cancel: "" none | "pre" (the context is cancelled before Run is called) | "before-sync" | "wait:<n>:<j>" (during the n-th wait group after j status deliveries) | "mut:<k>" (while mutating request k is in flight)
type sysRun struct {
	Kind        string            `json:"kind"` // apply | destroy
	Objs        []sysObj          `json:"objs"`
	Opts        sysOpts           `json:"opts"`
	FailMut     []int             `json:"failMut,omitempty"`
	FailInvRead []int             `json:"failInvRead,omitempty"` // n-th LIST of the inventory objects fails
	FailGet     []jid             `json:"failGet,omitempty"`     // every GET of these objects fails
	InvAlt      bool              `json:"invAlt,omitempty"`      // the local inventory template is named differently from the other runs' template
	FailInfo    []string          `json:"failInfo,omitempty"`    // kinds for which no REST client can be built in this run (BuildInfo fails at apply time)
	FailCode    int               `json:"failCode,omitempty"`    // HTTP status of the injected faults of this run: 0 = 500, 403, 422 (the library treats them alike)
	Ctrl        map[string]string `json:"ctrl,omitempty"`        // id key -> current | stale | never | failed | failed-current | replaced
	Del         map[string]string `json:"del,omitempty"`         // id key -> gone | finalizer | finalizer-gone
	Cancel      string            `json:"cancel,omitempty"`
	WatchErr    string            `json:"watchErr,omitempty"` // "" | "wait:<n>:<j>" | "mut:<k>" (while mutating request k is in flight; after the cancellation, if one is scheduled at the same request): the watcher reports a fatal error at that point
	EnvDel      []jid             `json:"envDel,omitempty"`   // objects another actor deletes before this run
	Initial     []jid             `json:"initial,omitempty"`  // objects whose current status (Current, live generation/uid) the watcher reports before its sync event
	// Real: the run uses the library's REAL DefaultStatusWatcher (informers over the fake cluster's LIST / WATCH) instead of the
	// scripted one; `ctrl` / `del` then DESCRIBE what kstatus computes for the kinds involved (a Deployment without status never
	// becomes Current, everything else is Current once it exists, a deleted object is gone unless a finalizer holds it)
	Real bool `json:"real,omitempty"`
}

type sysIn struct {
	Pre  []sysObj `json:"pre"`
	Runs []sysRun `json:"runs"`
	// PreInv: the inventory object exists before the first run and lists these ids (whatever they are: objects of types that
	// are not registered any more included)
	PreInv []jid `json:"preInv,omitempty"`
}

// seedInventory stores the inventory object a history starts with
func seedInventory(c *fakecluster.Cluster, ids []jid) {
	if len(ids) == 0 {
		return
	}
	cm := &unstructured.Unstructured{Object: map[string]interface{}{
		"apiVersion": "v1", "kind": "ConfigMap",
		"metadata": map[string]interface{}{"name": sysInvName, "namespace": sysInvNs, "labels": map[string]interface{}{common.InventoryLabel: sysInvID}},
	}}
	w := inventory.WrapInventoryObj(cm)
	_ = w.Store(fromJids(ids), nil)
	obj, err := w.GetObject()
	if err != nil {
		return
	}
	if k, ok := keyOf(jid{sysInvNs, sysInvName, "", "ConfigMap"}); ok {
		c.Put(k, obj)
	}
}

// the target field of apply-time mutation holds a token inside a fixed text; snapshots report what replaced the token
// ("unset" while the token is still there), so that the model keeps speaking of the source's revision alone
const sysFromPrefix = "v-"

func canonFrom(v string) string {
	if v == sysFromPrefix+"${tok}" {
		return "unset"
	}
	return strings.TrimPrefix(v, sysFromPrefix)
}

const (
	sysInvNs   = "ns1"
	sysInvName = "inv"
	// a second name for the local inventory template: the library finds the stored inventory object by its id label, whatever
	// it is called, so a run may come with a template of another name than the object an earlier run created
	sysInvAltName = "inv-renamed"
	sysInvID      = "inv-1"
)

func idKey(j jid) string { return strings.Join(j[:], "|") }

// ---------- kinds ----------

type sysKindInfo struct {
	group, version, kind, resource string
	namespaced                     bool
}

var sysKinds = []sysKindInfo{
	{"", "v1", "ConfigMap", "configmaps", true},
	{"", "v1", "Namespace", "namespaces", false},
	{"", "v1", "Secret", "secrets", true},
	{"apps", "v1", "Deployment", "deployments", true},
	{"rbac.authorization.k8s.io", "v1", "ClusterRole", "clusterroles", false},
	{"apiregistration.k8s.io", "v1", "APIService", "apiservices", false}, // only the `apisvc` domain applies one
}

func kindOf(group, kind string) *sysKindInfo {
	for i := range sysKinds {
		if sysKinds[i].group == group && sysKinds[i].kind == kind {
			return &sysKinds[i]
		}
	}
	return nil
}
func kindOfResource(group, res string) *sysKindInfo {
	for i := range sysKinds {
		if sysKinds[i].group == group && sysKinds[i].resource == res {
			return &sysKinds[i]
		}
	}
	return nil
}

func keyOf(j jid) (fakecluster.Key, bool) {
	ki := kindOf(j[2], j[3])
	if ki == nil {
		return fakecluster.Key{}, false
	}
	return fakecluster.Key{Group: ki.group, Resource: ki.resource, Namespace: j[0], Name: j[1]}, true
}

func jidOfKey(k fakecluster.Key) jid {
	kind := k.Resource
	if ki := kindOfResource(k.Group, k.Resource); ki != nil {
		kind = ki.kind
	}
	name := k.Name
	if k.Resource == "configmaps" && k.Namespace == sysInvNs && name == sysInvAltName {
		// the inventory object under the other template name: one and the same object for the model, which knows the
		// inventory by its id label only
		name = sysInvName
	}
	return jid{k.Namespace, name, k.Group, kind}
}

func manifest(o sysObj) *unstructured.Unstructured {
	apiVersion := "v1"
	if ki := kindOf(o.ID[2], o.ID[3]); ki != nil {
		if ki.group != "" {
			apiVersion = ki.group + "/" + ki.version
		}
	} else if o.ID[2] != "" {
		apiVersion = o.ID[2] + "/v1"
	}
	md := map[string]interface{}{}
	if o.ID[1] != "" {
		md["name"] = o.ID[1]
	}
	if o.ID[0] != "" {
		md["namespace"] = o.ID[0]
	}
	ann := map[string]interface{}{}
	if len(o.Deps) > 0 {
		var parts []string
		for _, d := range o.Deps {
			if d[0] != "" {
				parts = append(parts, fmt.Sprintf("%s/namespaces/%s/%s/%s", d[2], d[0], d[3], d[1]))
			} else {
				parts = append(parts, fmt.Sprintf("%s/%s/%s", d[2], d[3], d[1]))
			}
		}
		// (a blank after the comma is allowed: every reference is trimmed on its own)
		sep := ","
		if o.Rev%2 == 0 {
			sep = ", "
		}
		ann["config.kubernetes.io/depends-on"] = strings.Join(parts, sep)
	}
	if o.DepsRaw == "<empty>" {
		// the annotation is there and its value is the empty string: not a dependency set (the model reads the placeholder, which
		// is no dependency set either)
		ann["config.kubernetes.io/depends-on"] = ""
	} else if o.DepsRaw != "" {
		ann["config.kubernetes.io/depends-on"] = o.DepsRaw
	}
	if o.Keep {
		ann[common.OnRemoveAnnotation] = common.OnRemoveKeep
	}
	if o.Detach {
		ann[common.LifecycleDeleteAnnotation] = common.PreventDeletion
	}
	if o.MutFrom != nil {
		s := *o.MutFrom
		ext := ""
		if o.MutExt {
			ext = "- sourceRef:\n    kind: ConfigMap\n    name: absent\n    namespace: ns1\n  sourcePath: $.data.rev\n  targetPath: $.data.other\n"
		}
		ann["config.kubernetes.io/apply-time-mutation"] = ext + fmt.Sprintf(
			"- sourceRef:\n    kind: %s\n    name: %s\n    namespace: %s\n  sourcePath: $.data.rev\n  targetPath: $.data.from\n  token: ${tok}\n", s[3], s[1], s[0])
		if o.MutBad {
			ann["config.kubernetes.io/apply-time-mutation"] = ann["config.kubernetes.io/apply-time-mutation"].(string) + fmt.Sprintf(
				"- sourceRef:\n    kind: %s\n    name: %s\n    namespace: %s\n  sourcePath: $.data.nope\n  targetPath: $.data.other\n", s[3], s[1], s[0])
		}
	}
	if o.Owner != "" {
		ann[inventory.OwningInventoryKey] = o.Owner
	}
	if len(ann) > 0 {
		md["annotations"] = ann
	}
	m := map[string]interface{}{"apiVersion": apiVersion, "metadata": md}
	if o.ID[3] != "" {
		m["kind"] = o.ID[3]
	}
	if o.ID[3] == "ConfigMap" || o.ID[3] == "Secret" || kindOf(o.ID[2], o.ID[3]) == nil {
		data := map[string]interface{}{"rev": fmt.Sprint(o.Rev)}
		if o.MutFrom != nil {
			data["from"] = sysFromPrefix + "${tok}" // the token is replaced by the source's data.rev
		}
		m["data"] = data
	}
	return &unstructured.Unstructured{Object: m}
}

// ---------- scripted watcher ----------

type scriptedWatcher struct {
	ch       chan scriptedEv
	syncGate chan struct{} // closed to let the sync event out
	started  chan struct{}
	once     sync.Once
	mu       sync.Mutex
	ctx      context.Context // the context the runner started the watcher under
	exited   chan struct{}   // closed when the watcher goroutine has returned (its channel is closed)
}

// stoppedNow: the runner has cancelled the watcher (or never started it).  The runner does so — and drains the watcher's
// channel — before it returns, hence before the run's event channel closes; a watcher still running after that is a leaked
// goroutine that would keep issuing LIST/WATCH requests.
func (w *scriptedWatcher) stoppedNow() bool {
	w.mu.Lock()
	ctx := w.ctx
	w.mu.Unlock()
	if ctx == nil {
		return true
	}
	select {
	case <-w.exited:
		return true
	default:
	}
	return ctx.Err() != nil
}

type scriptedEv struct {
	e   pollevent.Event
	ack chan struct{} // closed once the runner has RECEIVED the event
}

func newScriptedWatcher() *scriptedWatcher {
	return &scriptedWatcher{ch: make(chan scriptedEv), syncGate: make(chan struct{}), started: make(chan struct{}), exited: make(chan struct{})}
}

func (w *scriptedWatcher) Watch(ctx context.Context, _ object.ObjMetadataSet, _ watcher.Options) <-chan pollevent.Event {
	out := make(chan pollevent.Event)
	w.mu.Lock()
	w.ctx = ctx
	w.mu.Unlock()
	w.once.Do(func() { close(w.started) })
	go func() {
		defer close(w.exited)
		defer close(out)
		synced := false
		gate := w.syncGate
		for {
			select {
			case <-gate:
				gate = nil // a closed channel would be selected forever
				if !synced {
					synced = true
					select {
					case out <- pollevent.Event{Type: pollevent.SyncEvent}:
					case <-ctx.Done():
						return
					}
				}
			case se := <-w.ch:
				// (informers' initial adds can precede the sync event)
				select {
				case out <- se.e:
					close(se.ack)
					if se.e.Type == pollevent.ErrorEvent {
						// like DefaultStatusWatcher after a fatal error: the watcher stops and closes its channel by itself,
						// while the runner's current task is still in flight
						return
					}
				case <-ctx.Done():
					return
				}
			case <-ctx.Done():
				return
			}
		}
	}()
	return out
}

// send delivers one event to the runner and returns once the runner has received it (rendezvous on the runner's
// select loop); false if the watcher has been stopped.
func (w *scriptedWatcher) send(e pollevent.Event, stop <-chan struct{}) bool {
	se := scriptedEv{e: e, ack: make(chan struct{})}
	select {
	case w.ch <- se:
	case <-stop:
		return false
	case <-time.After(5 * time.Second):
		return false
	}
	select {
	case <-se.ack:
		return true
	case <-stop:
		return false
	case <-time.After(5 * time.Second):
		return false
	}
}

var fenceID = fromJid(jid{"zz-fence", "fence", "", "ConfigMap"})

func (w *scriptedWatcher) fence(stop <-chan struct{}) bool {
	return w.send(pollevent.Event{Type: pollevent.ResourceUpdateEvent, Resource: &pollevent.ResourceStatus{Identifier: fenceID, Status: status.UnknownStatus}}, stop)
}

// ---------- factory wrapper ----------

type sysFactory struct {
	*cmdtesting.TestFactory
	dyn dynamic.Interface
}

func (f *sysFactory) DynamicClient() (dynamic.Interface, error) { return f.dyn, nil }

// ---------- canonical events ----------

func sysErrKind(err error) string {
	if err == nil {
		return ""
	}
	s := err.Error()
	switch {
	case strings.Contains(s, "custom cause"):
		return "cause"
	case errors.Is(err, context.Canceled) || strings.Contains(s, "context canceled"):
		return "canceled"
	case errors.Is(err, context.DeadlineExceeded) || strings.Contains(s, "deadline exceeded"):
		return "deadline"
	case strings.Contains(s, "injected fault"):
		return "fault"
	case strings.Contains(s, "polling for status failed"):
		return "watcher"
	}
	return "other"
}

func canonEvent(e event.Event) []any {
	switch e.Type {
	case event.InitType:
		gs := [][]any{}
		for _, g := range e.InitEvent.ActionGroups {
			gs = append(gs, []any{g.Name, g.Action.String(), toJids(g.Identifiers)})
		}
		return []any{"init", gs}
	case event.ErrorType:
		return []any{"error", sysErrKind(e.ErrorEvent.Err)}
	case event.ActionGroupType:
		return []any{"group", e.ActionGroupEvent.GroupName, e.ActionGroupEvent.Action.String(), e.ActionGroupEvent.Status.String()}
	case event.ApplyType:
		return []any{"apply", e.ApplyEvent.GroupName, toJid(e.ApplyEvent.Identifier), e.ApplyEvent.Status.String(), skipReason(e.ApplyEvent.Error)}
	case event.PruneType:
		return []any{"prune", e.PruneEvent.GroupName, toJid(e.PruneEvent.Identifier), e.PruneEvent.Status.String(), skipReason(e.PruneEvent.Error)}
	case event.DeleteType:
		return []any{"delete", e.DeleteEvent.GroupName, toJid(e.DeleteEvent.Identifier), e.DeleteEvent.Status.String(), skipReason(e.DeleteEvent.Error)}
	case event.WaitType:
		return []any{"wait", e.WaitEvent.GroupName, toJid(e.WaitEvent.Identifier), e.WaitEvent.Status.String()}
	case event.StatusType:
		return []any{"status", toJid(e.StatusEvent.Identifier), e.StatusEvent.PollResourceInfo.Status.String()}
	case event.ValidationType:
		return []any{"validation", sortJids(toJids(e.ValidationEvent.Identifiers)), validationKind(e.ValidationEvent.Error)}
	}
	return []any{"unknown", e.Type.String()}
}

// skipReason classifies why an object was skipped / failed (which filter or fault) without comparing message wording.
func skipReason(err error) string {
	if err == nil {
		return ""
	}
	s := err.Error()
	switch {
	case strings.Contains(s, "no REST client for"):
		return "info"
	case strings.Contains(s, "injected fault"):
		return "fault"
	case strings.Contains(s, "annotation prevents deletion"):
		return "prevent-remove"
	case strings.Contains(s, "inventory policy prevented actuation"):
		return "policy"
	case strings.Contains(s, "namespace still in use"):
		return "namespace-in-use"
	case strings.Contains(s, "object just applied"):
		return "just-applied"
	case strings.Contains(s, "scheduled for"):
		return "dep-mismatch"
	case strings.Contains(s, "invalid dependency") || strings.Contains(s, "invalid dependent"):
		return "dep-invalid"
	case strings.Contains(s, "premature"):
		return "dep-premature"
	case strings.Contains(s, "unknown dependency actuation strategy") || strings.Contains(s, "unknown dependent actuation strategy"):
		return "dep-unknown"
	case strings.HasPrefix(s, "dependency ") || strings.HasPrefix(s, "dependent "):
		return "dep-blocked"
	case strings.Contains(s, "failed to mutate"):
		return "mutate"
	case strings.Contains(s, "precondition"):
		return "precondition"
	case strings.Contains(s, "not found"):
		return "notfound"
	}
	if os.Getenv("VERIF_DEBUG") != "" {
		return "other: " + s
	}
	return "other"
}

func validationKind(err error) string {
	if err == nil {
		return ""
	}
	s := err.Error()
	switch {
	case strings.Contains(s, "cyclic dependency"):
		return "cycle"
	case strings.Contains(s, "external dependency"):
		return "external-dep"
	case strings.Contains(s, "duplicate"):
		return "duplicate-dep"
	case strings.Contains(s, "invalid \"config.kubernetes.io/depends-on\" annotation") || strings.Contains(s, "depends-on"):
		return "bad-annotation"
	case strings.Contains(s, "apply-time-mutation"):
		return "bad-mutation"
	}
	return "field"
}

// ---------- snapshots ----------

type snapObj struct {
	ID       jid    `json:"id"`
	UID      string `json:"uid"`
	Gen      int64  `json:"gen"`
	Owner    string `json:"owner"`
	Deleting bool   `json:"deleting"`
	Rev      string `json:"rev"`
	Frm      string `json:"frm"` // data.from: the field apply-time mutation writes ("" = absent)
}

type snapshot struct {
	Inv  any       `json:"inv"` // null | "unreadable" | [ids]
	Objs []snapObj `json:"objs"`
}

func takeSnapshot(c *fakecluster.Cluster) snapshot {
	s := snapshot{Objs: []snapObj{}}
	snap := c.Snapshot()
	keys := make([]fakecluster.Key, 0, len(snap))
	for k := range snap {
		keys = append(keys, k)
	}
	sort.Slice(keys, func(i, j int) bool { return keys[i].String() < keys[j].String() })
	for _, k := range keys {
		o := snap[k]
		if k.Resource == "configmaps" && k.Namespace == sysInvNs && (k.Name == sysInvName || k.Name == sysInvAltName) {
			ids, err := inventory.WrapInventoryObj(o).Load()
			if err != nil {
				s.Inv = "unreadable"
			} else {
				s.Inv = sortJids(toJids(ids))
			}
			continue
		}
		rev, _, _ := unstructured.NestedString(o.Object, "data", "rev")
		frm, _, _ := unstructured.NestedString(o.Object, "data", "from")
		frm = canonFrom(frm)
		s.Objs = append(s.Objs, snapObj{ID: jidOfKey(k), UID: string(o.GetUID()), Gen: o.GetGeneration(),
			Owner: o.GetAnnotations()[inventory.OwningInventoryKey], Deleting: o.GetDeletionTimestamp() != nil, Rev: rev, Frm: frm})
	}
	return s
}

// ---------- one run ----------

type runOut struct {
	Events  [][]any  `json:"events"`
	Muts    [][]any  `json:"muts"`  // mutating requests: [verb, id, dryRun, precondUID, propagation, result, rejected, #events-before, snapshot-after]
	Final   snapshot `json:"final"` // after the channel closed
	Closed  bool     `json:"closed"`
	Late    int      `json:"late"` // requests after close
	Anomaly string   `json:"anomaly,omitempty"`
	// the caller's context was cancelled by the script (before-sync, wait:…, mut:…) while the run was in progress
	CancelCalled bool `json:"cancelCalled,omitempty"`
	// the status watcher the runner started had been stopped by the time the event channel closed
	WatcherStopped bool   `json:"watcherStopped"`
	Panic          string `json:"panic,omitempty"`
	Raced          bool   `json:"-"` // a deadline fired before the scripted deliveries of its phase were made (machine too slow): re-run
}

const sysTimeout = 500 * time.Millisecond

// the reconcile timeout (wait phases after apply phases) differs from the prune / delete timeout, so that a run which
// applies the wrong one reports Timeout too early somewhere
const sysReconcileTimeout = sysTimeout + 150*time.Millisecond

func runOne(c *fakecluster.Cluster, run sysRun) (out runOut) {
	defer func() {
		if r := recover(); r != nil {
			out.Panic = fmt.Sprint(r)
		}
	}()
	c.NewRun()
	for _, d := range run.EnvDel {
		if k, ok := keyOf(d); ok {
			c.Remove(k)
		}
	}
	for _, k := range run.FailMut {
		c.FailMut[k] = true
	}
	c.FailCode = run.FailCode
	c.FailReq = func(r *fakecluster.Req) bool {
		if r.Verb == "list" {
			for _, k := range run.FailInvRead {
				if k == r.ListIdx {
					return true
				}
			}
		}
		if r.Verb == "get" {
			for _, j := range run.FailGet {
				if k, ok := keyOf(j); ok && k == r.Key {
					return true
				}
			}
		}
		return false
	}
	for idk, b := range run.Del {
		if strings.HasPrefix(b, "finalizer") {
			var j jid
			copy(j[:], strings.Split(idk, "|"))
			if k, ok := keyOf(j); ok {
				c.Finalizer[k] = true
			}
		}
	}

	tf := cmdtesting.NewTestFactory().WithNamespace(sysInvNs)
	defer tf.Cleanup()
	mapper, err := tf.ToRESTMapper()
	if err != nil {
		out.Anomaly = "mapper: " + err.Error()
		return
	}
	{
		// the APIService kind (domain apisvc) is not in the test factory's scheme
		gvk := schema.GroupVersionKind{Group: "apiregistration.k8s.io", Version: "v1", Kind: "APIService"}
		gvr := gvk.GroupVersion().WithResource("apiservices")
		extra := meta.NewDefaultRESTMapper([]schema.GroupVersion{gvk.GroupVersion()})
		extra.AddSpecific(gvk, gvr, gvr, meta.RESTScopeRoot)
		mapper = meta.MultiRESTMapper{mapper, extra}
	}
	dyn := c.Dynamic()
	f := &sysFactory{TestFactory: tf, dyn: dyn}
	clientFor := func(m *meta.RESTMapping) (resource.RESTClient, error) {
		for _, k := range run.FailInfo {
			if m.GroupVersionKind.Kind == k {
				return nil, fmt.Errorf("no REST client for %s (injected)", m.GroupVersionKind)
			}
		}
		group := m.Resource.Group
		return &fake.RESTClient{
			NegotiatedSerializer: resource.UnstructuredPlusDefaultContentConfig().NegotiatedSerializer,
			Client:               fake.CreateHTTPClient(func(req *http.Request) (*http.Response, error) { return c.RoundTrip(group, req) }),
		}, nil
	}
	statusPolicy := inventory.StatusPolicyNone
	if run.Opts.StatusAll {
		statusPolicy = inventory.StatusPolicyAll
	}
	invClient, err := inventory.ClusterClientFactory{StatusPolicy: statusPolicy}.NewClient(f)
	if err != nil {
		out.Anomaly = "invclient: " + err.Error()
		return
	}
	sw := newScriptedWatcher()
	invTemplateName := sysInvName
	if run.InvAlt {
		invTemplateName = sysInvAltName
	}
	inv := inventory.WrapInventoryInfoObj(&unstructured.Unstructured{Object: map[string]interface{}{
		"apiVersion": "v1", "kind": "ConfigMap",
		"metadata": map[string]interface{}{"name": invTemplateName, "namespace": sysInvNs, "labels": map[string]interface{}{common.InventoryLabel: sysInvID}},
	}})

	// the caller cancels WITH A CAUSE of its own: ctx.Err() stays context.Canceled (what the run must report), context.Cause(ctx)
	// is the caller's private error (what it must not report instead)
	ctx, cancelCause := context.WithCancelCause(context.Background())
	cancel := func() { cancelCause(errors.New("the caller gave up (custom cause)")) }
	defer cancel()

	// cancellation while a mutating request is in flight
	var mu sync.Mutex
	stop := make(chan struct{})
	var stopOnce sync.Once
	cancelMut := -1
	if strings.HasPrefix(run.Cancel, "mut:") {
		fmt.Sscanf(run.Cancel, "mut:%d", &cancelMut)
	}
	watchErrMut := -1
	if strings.HasPrefix(run.WatchErr, "mut:") && run.Opts.Dry == 0 { // (dry-runs use the library's blind watcher)
		fmt.Sscanf(run.WatchErr, "mut:%d", &watchErrMut)
	}
	var cancelCalled atomic.Bool
	// the last status report delivered per object; repeated once right after the first Timeout event of a wait phase (below)
	var lastMu sync.Mutex
	lastRS := map[object.ObjMetadata]*pollevent.ResourceStatus{}
	lateStatusDone := map[string]bool{}
	var atSyncRS atomic.Pointer[pollevent.ResourceStatus] // the status event on whose receipt the reader plays the "at-sync" scene
	// barrier: accepted by the reader loop only between two events (see below)
	barrier := make(chan struct{})
	evIdx := map[int]int{}
	c.Before = func(r *fakecluster.Req) {
		if !r.Mutating {
			return
		}
		// every event sent before this request has been recorded once the reader accepts the barrier
		select {
		case barrier <- struct{}{}:
		case <-stop:
		case <-time.After(5 * time.Second):
		}
		mu.Lock()
		evIdx[r.MutIdx] = len(out.Events)
		mu.Unlock()
		if r.MutIdx == cancelMut {
			cancelCalled.Store(true)
			cancel()
			time.Sleep(20 * time.Millisecond) // let the runner observe the cancellation while the request is in flight
		}
		if r.MutIdx == watchErrMut {
			// returns once the runner has received the error event (the task that issued the request keeps waiting meanwhile)
			sw.send(pollevent.Event{Type: pollevent.ErrorEvent, Error: fmt.Errorf("injected watcher failure")}, stop)
			time.Sleep(5 * time.Millisecond)
		}
	}
	c.After = func(r *fakecluster.Req) {
		if r.Mutating {
			s := takeSnapshot(c)
			mu.Lock()
			out.Muts = append(out.Muts, []any{r.Verb, jidOfKey(r.Key), r.DryRun, r.PrecondUID, r.Propagation, r.Result, r.Rejected, evIdx[r.MutIdx], s})
			mu.Unlock()
		}
	}

	policy := []inventory.Policy{inventory.PolicyMustMatch, inventory.PolicyAdoptIfNoInventory, inventory.PolicyAdoptAll}[run.Opts.Policy%3]
	dry := []common.DryRunStrategy{common.DryRunNone, common.DryRunClient, common.DryRunServer}[run.Opts.Dry%3]
	vpol := validation.ExitEarly
	if run.Opts.SkipInvalid {
		vpol = validation.SkipInvalid
	}
	var tmo, rtmo time.Duration
	if run.Opts.Timeout {
		tmo = sysTimeout
		rtmo = sysReconcileTimeout
	}
	prop := metav1.DeletePropagationBackground
	if run.Opts.Foreground {
		prop = metav1.DeletePropagationForeground
	} else if run.Opts.PropDefault {
		prop = "" // left to the library's default, which is Background
	}

	if run.Cancel == "pre" {
		// the caller's context is already cancelled when Run is called
		cancelCalled.Store(true)
		cancel()
	}
	var swUsed watcher.StatusWatcher = sw
	if run.Real {
		swUsed = watcher.NewDefaultStatusWatcher(dyn, mapper)
	}
	var ch <-chan event.Event
	if run.Kind == "destroy" {
		d, err := apply.NewDestroyerBuilder().WithFactory(f).WithDynamicClient(dyn).WithRestMapper(mapper).
			WithUnstructuredClientForMapping(clientFor).
			WithInventoryClient(invClient).WithStatusWatcher(swUsed).Build()
		if err != nil {
			out.Anomaly = "build: " + err.Error()
			return
		}
		ch = d.Run(ctx, inv, apply.DestroyerOptions{InventoryPolicy: policy, DryRunStrategy: dry, DeleteTimeout: tmo,
			DeletePropagationPolicy: prop, EmitStatusEvents: run.Opts.EmitStatus, ValidationPolicy: vpol})
	} else {
		a, err := apply.NewApplierBuilder().WithFactory(f).WithDynamicClient(dyn).WithRestMapper(mapper).
			WithUnstructuredClientForMapping(clientFor).
			WithInventoryClient(invClient).WithStatusWatcher(swUsed).Build()
		if err != nil {
			out.Anomaly = "build: " + err.Error()
			return
		}
		// a caller that keeps its objects in memory hands the SAME objects to every run (the library annotates them in place, and
		// must not otherwise change them): identical manifests of one history are built once
		objs := object.UnstructuredSet{}
		for _, o := range run.Objs {
			kb, _ := json.Marshal(o)
			u, ok := c.Manifests[string(kb)]
			if !ok {
				u = manifest(o)
				if c.Manifests == nil {
					c.Manifests = map[string]*unstructured.Unstructured{}
				}
				c.Manifests[string(kb)] = u
			}
			objs = append(objs, u)
		}
		ch = a.Run(ctx, inv, objs, apply.ApplierOptions{
			ServerSideOptions: common.ServerSideOptions{ServerSideApply: run.Opts.SSA, ForceConflicts: true, FieldManager: "verif"},
			ReconcileTimeout:  rtmo, PruneTimeout: tmo, EmitStatusEvents: run.Opts.EmitStatus, NoPrune: run.Opts.NoPrune,
			DryRunStrategy: dry, PrunePropagationPolicy: prop, InventoryPolicy: policy, ValidationPolicy: vpol})
	}

	// what happens between the plan event and the watcher's sync event: initial statuses, cancellation before sync
	var sync2 func() bool
	beforeSync := func() {
		if run.Opts.Dry != 0 {
			return // dry-runs use the library's blind watcher
		}
		select {
		case <-sw.started:
		case <-stop:
			return
		case <-time.After(5 * time.Second):
			return
		}
		for _, j := range run.Initial {
			k, ok := keyOf(j)
			if !ok {
				continue
			}
			live := c.Get(k)
			if live == nil {
				continue
			}
			sw.send(pollevent.Event{Type: pollevent.ResourceUpdateEvent, Resource: &pollevent.ResourceStatus{
				Identifier: fromJid(j), Status: status.CurrentStatus, Resource: live}}, stop)
		}
		if len(run.Initial) > 0 {
			sw.fence(stop)
		}
		if run.Cancel == "before-sync" {
			cancelCalled.Store(true)
			cancel()
			time.Sleep(5 * time.Millisecond)
		}
		if run.Cancel == "at-sync" {
			// the cancellation and the watcher's sync event both become ready while the runner is busy forwarding a status event
			// to a consumer that is not reading: when it returns to its select, which of the two it takes is Go's choice
			var live *unstructured.Unstructured
			var lid jid
			for _, j := range run.Initial {
				if k, ok := keyOf(j); ok {
					if l := c.Get(k); l != nil {
						live, lid = l, j
						break
					}
				}
			}
			if live != nil && run.Opts.EmitStatus {
				// the reader does the rest when it receives this event (see the reader loop)
				m1 := &pollevent.ResourceStatus{Identifier: fromJid(lid), Status: status.CurrentStatus, Resource: live}
				atSyncRS.Store(m1)
				if sw.send(pollevent.Event{Type: pollevent.ResourceUpdateEvent, Resource: m1}, stop) {
					return
				}
				atSyncRS.Store(nil)
			}
			// (no status event can be forwarded: plain cancellation before the sync event)
			cancelCalled.Store(true)
			cancel()
			time.Sleep(5 * time.Millisecond)
		}
		close(sw.syncGate)
	}

	// ---- reader + phase driver ----
	waitIdx := -1
	var wg sync.WaitGroup
	// barrier: accepted by the reader loop only between two events, so after a fence (the runner has sent everything the
	// previous status event caused) + a barrier the bookkeeping below is up to date
	sync2 = func() bool {
		if !sw.fence(stop) {
			return false
		}
		select {
		case barrier <- struct{}{}:
			return true
		case <-stop:
			return false
		case <-time.After(5 * time.Second):
			return false
		}
	}
	pending := map[string]map[string]bool{} // wait group -> ids whose last wait event is Pending
	finished := map[string]chan struct{}{}
	var groups []event.ActionGroup
	drive := func(g event.ActionGroup, n int) {
		defer wg.Done()
		delivered := 0
		isDelete := false
		// which condition: the plan tells (a wait group follows an apply or a prune group)
		for i, pg := range groups {
			if pg.Name == g.Name && i > 0 {
				isDelete = groups[i-1].Action == event.PruneAction || groups[i-1].Action == event.DeleteAction
			}
		}
		stillPending := func(id object.ObjMetadata) bool {
			mu.Lock()
			defer mu.Unlock()
			return pending[g.Name][idKey(toJid(id))]
		}
		anyPending := func() bool {
			mu.Lock()
			defer mu.Unlock()
			return len(pending[g.Name]) > 0
		}
		done := func() bool {
			select {
			case <-finished[g.Name]:
				return true
			case <-stop:
				return true
			default:
				return false
			}
		}
		var envBefore func() // environment action performed right before the next delivery is made (a finalizer completes)
		deliver := func(id object.ObjMetadata, st status.Status, withRes bool, genDelta int64, newUID bool) bool {
			if done() && anyPending() && run.Opts.Timeout {
				// the phase is over although objects are pending and deliveries remain: the real deadline beat the script
				select {
				case <-stop:
				default:
					mu.Lock()
					out.Raced = true
					mu.Unlock()
				}
				return false
			}
			if done() || !anyPending() {
				return false
			}
			if run.Cancel == fmt.Sprintf("wait:%d:%d", n, delivered) {
				cancelCalled.Store(true)
				cancel()
				return false
			}
			if run.WatchErr == fmt.Sprintf("wait:%d:%d", n, delivered) {
				sw.send(pollevent.Event{Type: pollevent.ErrorEvent, Error: fmt.Errorf("injected watcher failure")}, stop)
				return false
			}
			if envBefore != nil {
				envBefore()
				envBefore = nil
			}
			rs := &pollevent.ResourceStatus{Identifier: id, Status: st}
			if withRes {
				if k, ok := keyOf(toJid(id)); ok {
					if live := c.Get(k); live != nil {
						live.SetGeneration(live.GetGeneration() + genDelta)
						if newUID {
							live.SetUID("uid-replaced")
						}
						rs.Resource = live
					}
				}
			}
			if !sw.send(pollevent.Event{Type: pollevent.ResourceUpdateEvent, Resource: rs}, stop) {
				return false
			}
			lastMu.Lock()
			lastRS[id] = rs
			lastMu.Unlock()
			delivered++
			return sync2()
		}
		// the group's Started event precedes WaitTask.Start; a fence is accepted only once the runner is back in its
		// select loop, i.e. after the start events of this phase have been emitted and read
		if !sync2() {
			return
		}
		for _, id := range g.Identifiers {
			key := idKey(toJid(id))
			if isDelete {
				switch run.Del[key] {
				case "finalizer":
					deliver(id, status.TerminatingStatus, true, 0, false)
				case "finalizer-gone":
					if deliver(id, status.TerminatingStatus, true, 0, false) {
						if k, ok := keyOf(toJid(id)); ok {
							envBefore = func() { c.Remove(k) }
						}
						deliver(id, status.NotFoundStatus, false, 0, false)
						envBefore = nil
					}
				case "replaced":
					// another client re-created the object: the watcher reports the new one (new UID) as Current
					deliver(id, status.CurrentStatus, true, 0, true)
				default: // gone
					deliver(id, status.NotFoundStatus, false, 0, false)
				}
			} else {
				switch run.Ctrl[key] {
				case "never":
					deliver(id, status.InProgressStatus, true, 0, false)
				case "stale":
					deliver(id, status.CurrentStatus, true, -1, false)
				case "failed":
					deliver(id, status.FailedStatus, true, 0, false)
				case "failed-current":
					if deliver(id, status.FailedStatus, true, 0, false) {
						deliver(id, status.CurrentStatus, true, 0, false)
					}
				case "failed-stale":
					// reported Failed, then Current at a generation older than the applied one (a stale watch event)
					if deliver(id, status.FailedStatus, true, 0, false) {
						deliver(id, status.CurrentStatus, true, -1, false)
					}
				case "replaced":
					deliver(id, status.CurrentStatus, true, 0, true)
				default: // current
					deliver(id, status.CurrentStatus, true, 0, false)
				}
			}
			_ = stillPending
		}
		if run.Cancel == fmt.Sprintf("wait:%d:end", n) && !done() && anyPending() {
			cancelCalled.Store(true)
			cancel()
		}
	}

	waitStarted := map[string]time.Time{}
	waitLimit := map[string]time.Duration{}
	var lastAction event.ResourceAction
	lastEventAt := time.Now()
	timeoutCh := time.After(20 * time.Second)
loop:
	for {
		select {
		case e, ok := <-ch:
			if !ok {
				out.Closed = true
				break loop
			}
			if e.Type == event.StatusType && e.StatusEvent.PollResourceInfo != nil && e.StatusEvent.PollResourceInfo == atSyncRS.Load() {
				atSyncRS.Store(nil)
				// "at-sync": this goroutine is the only consumer of the event channel; while it is busy here the runner blocks in
				// SendEvent forwarding the NEXT status event.  Meanwhile the context is cancelled and the watcher offers its sync
				// event, so that both are ready when the runner gets back to its select — which one it takes is Go's choice.
				rs2 := *e.StatusEvent.PollResourceInfo
				sw.send(pollevent.Event{Type: pollevent.ResourceUpdateEvent, Resource: &rs2}, stop)
				time.Sleep(2 * time.Millisecond)
				cancelCalled.Store(true)
				cancel()
				close(sw.syncGate)
				time.Sleep(10 * time.Millisecond)
			}
			if e.Type == event.StatusType && e.StatusEvent.Identifier == fenceID {
				continue
			}
			morePending := false
			ce := canonEvent(e)
			prevEventAt := lastEventAt
			lastEventAt = time.Now()
			_ = prevEventAt
			mu.Lock()
			out.Events = append(out.Events, ce)
			switch e.Type {
			case event.InitType:
				if !run.Real {
					go beforeSync()
				}
				groups = e.InitEvent.ActionGroups
				for _, g := range groups {
					if g.Action == event.WaitAction {
						finished[g.Name] = make(chan struct{})
						pending[g.Name] = map[string]bool{}
					}
				}
			case event.ActionGroupType:
				if e.ActionGroupEvent.Status == event.Started {
					if e.ActionGroupEvent.Action == event.WaitAction {
						// the time the PREVIOUS event was received: that receive completed before the runner could send this
						// Started event, hence before the phase's timer was created — a sound lower bound whatever the scheduler does
						waitStarted[e.ActionGroupEvent.GroupName] = prevEventAt
						waitLimit[e.ActionGroupEvent.GroupName] = tmo
						if lastAction == event.ApplyAction {
							waitLimit[e.ActionGroupEvent.GroupName] = rtmo
						}
					} else {
						lastAction = e.ActionGroupEvent.Action
					}
				}
			case event.WaitType:
				if e.WaitEvent.Status == event.ReconcileTimeout && out.Anomaly == "" {
					// elapsed time since a moment that certainly precedes the creation of the phase's timer
					if t0, ok := waitStarted[e.WaitEvent.GroupName]; ok {
						if el, lim := time.Since(t0), waitLimit[e.WaitEvent.GroupName]; el < lim {
							out.Anomaly = fmt.Sprintf("early-timeout: %s reported Timeout after %dms, configured %dms", e.WaitEvent.GroupName, el.Milliseconds(), lim.Milliseconds())
						}
					}
				}
				k := idKey(toJid(e.WaitEvent.Identifier))
				if p, ok := pending[e.WaitEvent.GroupName]; ok {
					if e.WaitEvent.Status == event.ReconcilePending {
						p[k] = true
					} else {
						delete(p, k)
					}
					morePending = len(p) > 0
				}
			}
			mu.Unlock()
			if e.Type == event.WaitType && e.WaitEvent.Status == event.ReconcileTimeout && !run.Opts.EmitStatus && !lateStatusDone[e.WaitEvent.GroupName] && morePending && !run.Real {
				// the deadline of the phase has fired and its Timeout events are being sent: this is the first, at least one more is
				// to come, so the ending wait task is still sending (it waits for this reader) and the runner is idle in its select.
				// The runner is handed one more status report for an object of the phase — a repetition of the last one, which
				// changes nothing — so that its StatusUpdate and the ending wait task meet (they share the task's lock) before the
				// task's result is delivered.
				lateStatusDone[e.WaitEvent.GroupName] = true
				lastMu.Lock()
				rs := lastRS[e.WaitEvent.Identifier]
				lastMu.Unlock()
				if rs != nil {
					cp := *rs
					sw.send(pollevent.Event{Type: pollevent.ResourceUpdateEvent, Resource: &cp}, stop)
				}
			}
			if e.Type == event.ActionGroupType && e.ActionGroupEvent.Action == event.WaitAction {
				name := e.ActionGroupEvent.GroupName
				if e.ActionGroupEvent.Status == event.Started {
					waitIdx++
					for _, g := range groups {
						if g.Name == name && !run.Real {
							wg.Add(1)
							go drive(g, waitIdx)
						}
					}
				} else if fc, ok := finished[name]; ok {
					close(fc)
				}
			}
		case <-barrier:
		case <-timeoutCh:
			out.Anomaly = "hang: event channel not closed within 20s"
			cancel()
			// C12: cancelling the caller's context must end the run within bounded time
			grace := time.After(3 * time.Second)
		drain:
			for {
				select {
				case _, ok := <-ch:
					if !ok {
						break drain
					}
				case <-barrier:
				case <-grace:
					out.Anomaly += "; still open 3s after the context was cancelled"
					break drain
				}
			}
			break loop
		}
	}
	out.WatcherStopped = sw.stoppedNow()
	if run.Real {
		// the real watcher: every WATCH stream it opened has been stopped (the informers end with the watcher's context; the
		// streams are stopped by their reflectors on the way out)
		out.WatcherStopped = false
		for i := 0; i < 200 && !out.WatcherStopped; i++ {
			if c.ActiveWatches() == 0 {
				out.WatcherStopped = true
			} else {
				time.Sleep(10 * time.Millisecond)
			}
		}
	}
	stopOnce.Do(func() { close(stop) })
	c.MarkClosed()
	wg.Wait()
	out.CancelCalled = cancelCalled.Load()
	cancel()
	time.Sleep(2 * time.Millisecond) // a goroutine that still issues requests after the close shows up in Late
	out.Final = takeSnapshot(c)
	out.Late = len(c.LateReqs)
	if out.Events == nil {
		out.Events = [][]any{}
	}
	if out.Muts == nil {
		out.Muts = [][]any{}
	}
	return out
}

func runSys(in sysIn) map[string]any {
	var res map[string]any
	for attempt := 0; attempt < 4; attempt++ {
		var raced bool
		res, raced = runSysOnce(in)
		if !raced {
			break
		}
	}
	return res
}

func runSysOnce(in sysIn) (map[string]any, bool) {
	c := fakecluster.New()
	// environment: namespaces used by the catalogue exist unless a run applies them; pre-existing objects
	for _, o := range in.Pre {
		if k, ok := keyOf(o.ID); ok {
			c.Put(k, manifest(o))
		}
	}
	seedInventory(c, in.PreInv)
	runs := []runOut{}
	raced := false
	for _, r := range in.Runs {
		o := runOne(c, r)
		raced = raced || o.Raced
		runs = append(runs, o)
	}
	return map[string]any{"pre": takeSnapshot(c0(in)), "runs": runs}, raced
}

// c0 rebuilds the initial cluster (for the "pre" snapshot in the output)
func c0(in sysIn) *fakecluster.Cluster {
	c := fakecluster.New()
	for _, o := range in.Pre {
		if k, ok := keyOf(o.ID); ok {
			c.Put(k, manifest(o))
		}
	}
	seedInventory(c, in.PreInv)
	return c
}

func init() {
	register("sys", domain{gen: genSys, run: func(raw json.RawMessage) (any, error) {
		var in sysIn
		if err := json.Unmarshal(raw, &in); err != nil {
			return nil, err
		}
		return runSysIsolated([]sysIn{in}, 1)[0], nil
	}})
}
