package main

// domain apisvc (C10): one APIService applied through the real Applier under every dry-run strategy, with and without
// server-side apply, with and without the first apply request breaking with an HTTP/2 "stream error" — the one error on which
// ApplyTask retries an APIService with client-side apply (kubernetes/kubernetes#89264).  Whatever path is taken, a dry-run must
// not send a mutating request without the dry-run directive (client dry-run: none at all) and must leave the store as it was.

import (
	"encoding/json"

	"verif/harness/internal/proto"
)

type apisvcIn struct {
	Dry       int  `json:"dry"` // 0 none 1 client 2 server
	SSA       bool `json:"ssa"`
	StreamErr bool `json:"streamErr"` // the first mutating request of the run's apply phase answers with a stream error
	// the request after it (the client-side retry, where there is one) fails as well: the apply failed, whatever path was tried last
	RetryFails bool `json:"retryFails,omitempty"`
	Exists    bool `json:"exists"`    // the APIService already exists in the cluster
}

var apisvcID = jid{"", "v1.metrics.example.com", "apiregistration.k8s.io", "APIService"}

func runApisvc(in apisvcIn) map[string]any {
	h := sysIn{Pre: []sysObj{soNs1}}
	if in.Exists {
		h.Pre = append(h.Pre, sysObj{ID: apisvcID, Rev: 7})
	}
	run := sysRun{Kind: "apply", Objs: []sysObj{{ID: apisvcID}}, Opts: sysOpts{Dry: in.Dry, SSA: in.SSA, Policy: 2}}
	if in.StreamErr {
		// request 0 of a real run is the inventory create; dry-runs do not write the inventory
		k := 1
		if in.Dry != 0 {
			k = 0
		}
		run.FailMut = []int{k}
		if in.RetryFails {
			run.FailMut = []int{k, k + 1}
		}
		run.FailCode = 5001
	}
	h.Runs = []sysRun{run}
	o := runSysIsolated([]sysIn{h}, 1)[0]
	// projection: the mutating requests as (verb, object, dry directive, result), the apply events, whether the store changed
	out := map[string]any{"crash": o["crash"], "muts": []any{}, "events": []any{}, "changed": false}
	runs, _ := o["runs"].([]any)
	if len(runs) != 1 {
		return out
	}
	b, _ := json.Marshal(runs[0])
	var r struct {
		Events [][]any `json:"events"`
		Muts   [][]any `json:"muts"`
		Final  any     `json:"final"`
	}
	_ = json.Unmarshal(b, &r)
	muts := []any{}
	for _, m := range r.Muts {
		if len(m) >= 7 {
			muts = append(muts, []any{m[0], m[1], m[2], m[5]})
		}
	}
	evs := []any{}
	for _, e := range r.Events {
		if len(e) > 0 && (e[0] == "apply" || e[0] == "error") {
			evs = append(evs, e)
		}
	}
	pre, _ := json.Marshal(o["pre"])
	fin, _ := json.Marshal(r.Final)
	out["muts"], out["events"], out["changed"] = muts, evs, string(pre) != string(fin)
	return out
}

func genApisvc(out *proto.Out, _ *proto.Rng, _ string) {
	for dry := 0; dry < 3; dry++ {
		for _, ssa := range []bool{false, true} {
			for _, se := range []bool{false, true} {
				for _, ex := range []bool{false, true} {
					in := apisvcIn{Dry: dry, SSA: ssa, StreamErr: se, Exists: ex}
					out.Emit("apisvc", in, runApisvc(in))
					if se && ssa {
						in.RetryFails = true
						out.Emit("apisvc", in, runApisvc(in))
					}
				}
			}
		}
	}
}

func init() {
	register("apisvc", domain{gen: genApisvc, run: func(raw json.RawMessage) (any, error) {
		var in apisvcIn
		if err := json.Unmarshal(raw, &in); err != nil {
			return nil, err
		}
		return runApisvc(in), nil
	}})
}
