package fakecluster

import (
	"bytes"
	"encoding/json"
	"fmt"
	"io"
	"net/http"
	"strings"

	"k8s.io/apimachinery/pkg/apis/meta/v1/unstructured"
	"sigs.k8s.io/yaml"
)

// RoundTrip serves the REST requests of the kubectl apply path. The fake REST client of client-go sends paths without the
// /api(s)/group/version prefix, so the API group comes from the REST mapping the client was created for.
func (c *Cluster) RoundTrip(group string, req *http.Request) (*http.Response, error) {
	hdr := http.Header{}
	hdr.Set("Content-Type", "application/json")
	body := func(code int, v interface{}) *http.Response {
		b, _ := json.Marshal(v)
		return &http.Response{StatusCode: code, Header: hdr, Body: io.NopCloser(bytes.NewReader(b)), Request: req}
	}
	status := func(code int, reason, msg string) *http.Response {
		return body(code, map[string]interface{}{"kind": "Status", "apiVersion": "v1", "status": "Failure", "reason": reason, "code": code, "message": msg})
	}
	// an injected fault answers with the configured status (500 unless FailCode says 403 or 422)
	faultStatus := func(msg string) *http.Response {
		switch c.FailCode {
		case 5001:
			// what kubectl reports when an HTTP/2 stream breaks (the library retries an APIService client-side on this text)
			return status(500, "InternalError", "stream error: stream ID 1; INTERNAL_ERROR; "+msg)
		case 429:
			return status(429, "TooManyRequests", msg) // (no Retry-After header: the client does not retry)
		case 503:
			return status(503, "ServiceUnavailable", msg)
		case 403:
			return status(403, "Forbidden", msg)
		case 422:
			return status(422, "Invalid", msg)
		}
		return status(500, "InternalError", msg)
	}
	k, ok := parsePath(req.URL.Path)
	if ok && k.Group == "" {
		k.Group = group
	}
	if !ok {
		return status(404, "NotFound", "unknown path "+req.URL.Path), nil
	}
	dry := req.URL.Query().Get("dryRun") == "All"
	switch req.Method {
	case http.MethodGet:
		r := c.begin(&Req{Verb: "get", Via: "http", Key: k})
		defer c.end(r)
		if r.Rejected {
			r.Result = "error"
			return faultStatus("injected fault (get)"), nil
		}
		o, found := c.doGet(k)
		if !found {
			r.Result = "notfound"
			return status(404, "NotFound", k.String()+" not found"), nil
		}
		r.Result = "ok"
		return body(200, o.Object), nil
	case http.MethodPost:
		b, _ := io.ReadAll(req.Body)
		var m map[string]interface{}
		if err := json.Unmarshal(b, &m); err != nil {
			return status(400, "BadRequest", err.Error()), nil
		}
		u := &unstructured.Unstructured{Object: m}
		k.Name = u.GetName()
		r := c.begin(&Req{Verb: "create", Via: "http", Key: k, Kind: u.GetKind(), Mutating: true, DryRun: dry, Body: u.DeepCopy().Object})
		defer c.end(r)
		if r.Rejected {
			r.Result = "error"
			if c.FailCode == 409 && u.GetKind() != "Namespace" {
				return status(409, "AlreadyExists", "injected fault (create)"), nil
			}
			return faultStatus("injected fault (create)"), nil
		}
		res, st := c.doCreate(k, u, dry)
		r.Result = st
		if st == "exists" {
			return status(409, "AlreadyExists", k.String()+" already exists"), nil
		}
		return body(201, res.Object), nil
	case http.MethodPatch:
		b, _ := io.ReadAll(req.Body)
		ct := req.Header.Get("Content-Type")
		r := c.begin(&Req{Verb: "patch", Via: "http", Key: k, Mutating: true, DryRun: dry, PatchType: ct})
		defer c.end(r)
		if r.Rejected {
			r.Result = "error"
			return faultStatus("injected fault (patch)"), nil
		}
		var patch map[string]interface{}
		if strings.Contains(ct, "apply-patch") {
			if err := yaml.Unmarshal(b, &patch); err != nil {
				return status(400, "BadRequest", err.Error()), nil
			}
			u := &unstructured.Unstructured{Object: patch}
			r.Kind = u.GetKind()
			r.Body = u.DeepCopy().Object
			if _, found := c.doGet(k); !found {
				res, _ := c.doCreate(k, u, dry)
				r.Result = "ok"
				return body(201, res.Object), nil
			}
			// server-side apply over an existing object: the applied fields win, everything else is kept
			cur, _ := c.doGet(k)
			merged := mergeMaps(cur.Object, patch)
			res, st := c.doReplace(k, &unstructured.Unstructured{Object: merged}, dry)
			r.Result = st
			return body(200, res.Object), nil
		}
		if err := json.Unmarshal(b, &patch); err != nil {
			return status(400, "BadRequest", err.Error()), nil
		}
		r.Body = patch
		cur, found := c.doGet(k)
		if !found {
			r.Result = "notfound"
			return status(404, "NotFound", k.String()+" not found"), nil
		}
		merged := mergeMaps(cur.Object, patch)
		res, st := c.doReplace(k, &unstructured.Unstructured{Object: merged}, dry)
		r.Result = st
		return body(200, res.Object), nil
	case http.MethodDelete:
		// (kubectl's apply --force path: delete and re-create after a rejected PATCH)
		b, _ := io.ReadAll(req.Body)
		var opts struct {
			Preconditions *struct {
				UID *string `json:"uid"`
			} `json:"preconditions"`
			PropagationPolicy *string `json:"propagationPolicy"`
		}
		_ = json.Unmarshal(b, &opts)
		r := &Req{Verb: "delete", Via: "http", Key: k, Mutating: true, DryRun: dry}
		if opts.Preconditions != nil && opts.Preconditions.UID != nil {
			r.PrecondUID = *opts.Preconditions.UID
		}
		if opts.PropagationPolicy != nil {
			r.Propagation = *opts.PropagationPolicy
		}
		c.begin(r)
		defer c.end(r)
		if r.Rejected {
			r.Result = "error"
			return faultStatus("injected fault (delete)"), nil
		}
		if dry {
			r.Result = "ok"
			return status(200, "", "dry-run delete"), nil
		}
		st := c.doDelete(k, r.PrecondUID)
		r.Result = st
		switch st {
		case "notfound":
			return status(404, "NotFound", k.String()+" not found"), nil
		case "conflict":
			return status(409, "Conflict", "the UID in the precondition does not match"), nil
		}
		return body(200, map[string]interface{}{"kind": "Status", "apiVersion": "v1", "status": "Success"}), nil
	}
	return status(405, "MethodNotAllowed", req.Method), nil
}

// mergeMaps applies an RFC 7386 merge patch (null deletes); strategic-merge directives are not needed for the maps-only
// objects the harness uses ($patch/$retainKeys keys are ignored).
func mergeMaps(dst, patch map[string]interface{}) map[string]interface{} {
	out := map[string]interface{}{}
	for k, v := range dst {
		out[k] = v
	}
	for k, v := range patch {
		if strings.HasPrefix(k, "$") {
			continue
		}
		if v == nil {
			delete(out, k)
			continue
		}
		pm, ok1 := v.(map[string]interface{})
		dm, ok2 := out[k].(map[string]interface{})
		if ok1 && ok2 {
			out[k] = mergeMaps(dm, pm)
		} else if ok1 {
			out[k] = mergeMaps(map[string]interface{}{}, pm)
		} else {
			out[k] = v
		}
	}
	return out
}

// parsePath: /api/v1[/namespaces/{ns}]/{resource}[/{name}]  or /apis/{group}/{version}[/namespaces/{ns}]/{resource}[/{name}]
func parsePath(p string) (Key, bool) {
	parts := strings.Split(strings.Trim(p, "/"), "/")
	var k Key
	switch {
	case len(parts) >= 2 && parts[0] == "api":
		parts = parts[2:]
	case len(parts) >= 3 && parts[0] == "apis":
		k.Group = parts[1]
		parts = parts[3:]
	}
	if len(parts) >= 2 && parts[0] == "namespaces" && len(parts) >= 3 {
		k.Namespace = parts[1]
		parts = parts[2:]
	}
	if len(parts) == 0 {
		return k, false
	}
	k.Resource = parts[0]
	if len(parts) >= 2 {
		k.Name = parts[1]
	}
	if len(parts) > 2 {
		return k, false
	}
	return k, true
}

var _ = fmt.Sprint
