package fakecluster

import (
	"context"
	"fmt"
	"strings"
	"time"

	apierrors "k8s.io/apimachinery/pkg/api/errors"
	metav1 "k8s.io/apimachinery/pkg/apis/meta/v1"
	"k8s.io/apimachinery/pkg/apis/meta/v1/unstructured"
	"k8s.io/apimachinery/pkg/runtime/schema"
	"k8s.io/apimachinery/pkg/types"
	"k8s.io/apimachinery/pkg/watch"
	"k8s.io/client-go/dynamic"
)

func typesUID(s string) types.UID { return types.UID(s) }
func metav1Now() metav1.Time      { return metav1.NewTime(time.Unix(1700000000, 0)) }

// Dynamic returns a dynamic.Interface over the store.
func (c *Cluster) Dynamic() dynamic.Interface { return &dyn{c: c} }

type dyn struct{ c *Cluster }

func (d *dyn) Resource(gvr schema.GroupVersionResource) dynamic.NamespaceableResourceInterface {
	return &dynRes{c: d.c, gvr: gvr}
}

type dynRes struct {
	c   *Cluster
	gvr schema.GroupVersionResource
	ns  string
}

func (r *dynRes) Namespace(ns string) dynamic.ResourceInterface {
	return &dynRes{c: r.c, gvr: r.gvr, ns: ns}
}

func (r *dynRes) key(name string) Key {
	return Key{Group: r.gvr.Group, Resource: r.gvr.Resource, Namespace: r.ns, Name: name}
}

func (r *dynRes) gr() schema.GroupResource { return r.gvr.GroupResource() }

// injected builds the error of an injected fault with the configured HTTP status (500 unless FailCode says 403 or 422).
func (c *Cluster) injected(verb string, kind ...string) error {
	msg := fmt.Sprintf("injected fault (%s)", verb)
	// 409 AlreadyExists: what a CREATE gets when another client created the object first.  Not for the other verbs (a 409
	// Conflict makes kubectl retry the PATCH), and not for Namespaces (the library's own create of the inventory namespace
	// takes AlreadyExists for success, by design): those get a 500.
	if c.FailCode == 409 && verb == "create" && !(len(kind) > 0 && kind[0] == "Namespace") {
		return &apierrors.StatusError{ErrStatus: metav1.Status{Status: metav1.StatusFailure, Code: 409, Reason: metav1.StatusReasonAlreadyExists, Message: msg}}
	}
	// 4091 = 409 Conflict, for DELETE only: what a delete gets whose UID precondition no longer holds (the object was replaced
	// by another client).  Other verbs get a 500 (kubectl retries a PATCH that is answered Conflict).
	if c.FailCode == 4091 && verb == "delete" {
		return &apierrors.StatusError{ErrStatus: metav1.Status{Status: metav1.StatusFailure, Code: 409, Reason: metav1.StatusReasonConflict, Message: msg}}
	}
	switch c.FailCode {
	case 429:
		return &apierrors.StatusError{ErrStatus: metav1.Status{Status: metav1.StatusFailure, Code: 429, Reason: metav1.StatusReasonTooManyRequests, Message: msg}}
	case 503:
		return &apierrors.StatusError{ErrStatus: metav1.Status{Status: metav1.StatusFailure, Code: 503, Reason: metav1.StatusReasonServiceUnavailable, Message: msg}}
	case 403:
		return &apierrors.StatusError{ErrStatus: metav1.Status{Status: metav1.StatusFailure, Code: 403, Reason: metav1.StatusReasonForbidden, Message: msg}}
	case 422:
		return &apierrors.StatusError{ErrStatus: metav1.Status{Status: metav1.StatusFailure, Code: 422, Reason: metav1.StatusReasonInvalid, Message: msg}}
	}
	return apierrors.NewInternalError(fmt.Errorf("%s", msg))
}

func hasDry(dr []string) bool {
	for _, s := range dr {
		if s == metav1.DryRunAll {
			return true
		}
	}
	return false
}

func (r *dynRes) Create(ctx context.Context, obj *unstructured.Unstructured, o metav1.CreateOptions, sub ...string) (*unstructured.Unstructured, error) {
	k := r.key(obj.GetName())
	if k.Namespace == "" {
		k.Namespace = ""
	}
	req := r.c.begin(&Req{Verb: "create", Via: "dyn", Key: k, Kind: obj.GetKind(), Mutating: true, DryRun: hasDry(o.DryRun), Body: obj.DeepCopy().Object})
	defer r.c.end(req)
	if req.Rejected {
		req.Result = "error"
		return nil, r.c.injected("create", obj.GetKind())
	}
	res, st := r.c.doCreate(k, obj, req.DryRun)
	req.Result = st
	if st == "exists" {
		return nil, apierrors.NewAlreadyExists(r.gr(), obj.GetName())
	}
	return res, nil
}

func (r *dynRes) Update(ctx context.Context, obj *unstructured.Unstructured, o metav1.UpdateOptions, sub ...string) (*unstructured.Unstructured, error) {
	k := r.key(obj.GetName())
	req := r.c.begin(&Req{Verb: "update", Via: "dyn", Key: k, Kind: obj.GetKind(), Mutating: true, DryRun: hasDry(o.DryRun), Body: obj.DeepCopy().Object})
	defer r.c.end(req)
	if req.Rejected {
		req.Result = "error"
		return nil, r.c.injected("update")
	}
	res, st := r.c.doReplace(k, obj, req.DryRun)
	req.Result = st
	if st == "notfound" {
		return nil, apierrors.NewNotFound(r.gr(), obj.GetName())
	}
	return res, nil
}

func (r *dynRes) UpdateStatus(ctx context.Context, obj *unstructured.Unstructured, o metav1.UpdateOptions) (*unstructured.Unstructured, error) {
	return r.Update(ctx, obj, o)
}

func (r *dynRes) Delete(ctx context.Context, name string, o metav1.DeleteOptions, sub ...string) error {
	k := r.key(name)
	req := &Req{Verb: "delete", Via: "dyn", Key: k, Mutating: true, DryRun: hasDry(o.DryRun)}
	if o.Preconditions != nil && o.Preconditions.UID != nil {
		req.PrecondUID = string(*o.Preconditions.UID)
	}
	if o.PropagationPolicy != nil {
		req.Propagation = string(*o.PropagationPolicy)
	}
	r.c.begin(req)
	defer r.c.end(req)
	if req.Rejected {
		req.Result = "error"
		return r.c.injected("delete")
	}
	if req.DryRun {
		req.Result = "ok"
		return nil
	}
	st := r.c.doDelete(k, req.PrecondUID)
	req.Result = st
	switch st {
	case "notfound":
		return apierrors.NewNotFound(r.gr(), name)
	case "conflict":
		return apierrors.NewConflict(r.gr(), name, fmt.Errorf("uid precondition failed"))
	}
	return nil
}

func (r *dynRes) DeleteCollection(ctx context.Context, o metav1.DeleteOptions, l metav1.ListOptions) error {
	return fmt.Errorf("fakecluster: DeleteCollection not supported")
}

func (r *dynRes) Get(ctx context.Context, name string, o metav1.GetOptions, sub ...string) (*unstructured.Unstructured, error) {
	k := r.key(name)
	req := r.c.begin(&Req{Verb: "get", Via: "dyn", Key: k})
	defer r.c.end(req)
	if req.Rejected {
		req.Result = "error"
		return nil, r.c.injected("get")
	}
	res, ok := r.c.doGet(k)
	if !ok {
		req.Result = "notfound"
		return nil, apierrors.NewNotFound(r.gr(), name)
	}
	req.Result = "ok"
	return res, nil
}

func (r *dynRes) List(ctx context.Context, o metav1.ListOptions) (*unstructured.UnstructuredList, error) {
	req := r.c.begin(&Req{Verb: "list", Via: "dyn", Key: Key{Group: r.gvr.Group, Resource: r.gvr.Resource, Namespace: r.ns}})
	defer r.c.end(req)
	if req.Rejected {
		req.Result = "error"
		return nil, r.c.injected("list")
	}
	var match func(*unstructured.Unstructured) bool
	if o.LabelSelector != "" {
		parts := strings.SplitN(o.LabelSelector, "=", 2)
		match = func(u *unstructured.Unstructured) bool { return len(parts) == 2 && u.GetLabels()[parts[0]] == parts[1] }
	}
	items, rv := r.c.doListRV(r.gvr.Group, r.gvr.Resource, r.ns, match)
	l := &unstructured.UnstructuredList{Object: map[string]interface{}{"apiVersion": "v1", "kind": "List"}}
	l.SetResourceVersion(rv)
	for _, it := range items {
		l.Items = append(l.Items, *it)
	}
	req.Result = "ok"
	return l, nil
}

func (r *dynRes) Watch(ctx context.Context, o metav1.ListOptions) (watch.Interface, error) {
	req := r.c.begin(&Req{Verb: "watch", Via: "dyn", Key: Key{Group: r.gvr.Group, Resource: r.gvr.Resource, Namespace: r.ns}})
	defer r.c.end(req)
	if req.Rejected {
		req.Result = "error"
		return nil, r.c.injected("watch")
	}
	req.Result = "ok"
	return r.c.addWatch(ctx, r.gvr.Group, r.gvr.Resource, r.ns, o.ResourceVersion), nil
}

func (r *dynRes) Patch(ctx context.Context, name string, pt types.PatchType, data []byte, o metav1.PatchOptions, sub ...string) (*unstructured.Unstructured, error) {
	return nil, fmt.Errorf("fakecluster: dynamic Patch not supported")
}

func (r *dynRes) Apply(ctx context.Context, name string, obj *unstructured.Unstructured, o metav1.ApplyOptions, sub ...string) (*unstructured.Unstructured, error) {
	return nil, fmt.Errorf("fakecluster: dynamic Apply not supported")
}

func (r *dynRes) ApplyStatus(ctx context.Context, name string, obj *unstructured.Unstructured, o metav1.ApplyOptions) (*unstructured.Unstructured, error) {
	return nil, fmt.Errorf("fakecluster: dynamic ApplyStatus not supported")
}
