// Package fakecluster is a small stateful in-memory API server used by the system-level correspondence harness.
// One store is served through (i) a dynamic.Interface (inventory client, pruner, filters, mutator) and (ii) an
// http.RoundTripper (the kubectl apply path).  Every request is logged with a global sequence number; mutating requests
// can be rejected by index, delayed by a hook, and are followed by a snapshot callback (a snapshot is the state after a
// crash at that point).
package fakecluster

import (
	"context"
	"fmt"
	"sort"
	"strconv"
	"sync"

	"k8s.io/apimachinery/pkg/apis/meta/v1/unstructured"
	"k8s.io/apimachinery/pkg/runtime/schema"
	"k8s.io/apimachinery/pkg/watch"
)

// Key identifies a stored object.
type Key struct {
	Group, Resource, Namespace, Name string
}

func (k Key) String() string {
	return fmt.Sprintf("%s/%s/%s/%s", k.Group, k.Resource, k.Namespace, k.Name)
}

// Req is one logged API request.
type Req struct {
	Seq       int    // global sequence number
	MutIdx    int    // index among mutating requests (-1 for reads)
	ListIdx   int    // index among list requests
	Verb      string // get list create update patch delete
	Via       string // dyn | http
	Key       Key
	Kind      string
	DryRun    bool   // carries the server dry-run directive
	PrecondUID string // delete precondition
	Propagation string
	PatchType string
	Mutating  bool   // would change the store if executed without dry-run
	Rejected  bool   // failed by fault injection
	Result    string // ok | notfound | conflict | exists | error
	Body      map[string]interface{}
}

type Cluster struct {
	mu      sync.Mutex
	objs    map[Key]*unstructured.Unstructured
	nextUID int
	seq     int
	mutIdx  int
	Log     []*Req
	// FailMut[k]: reject the mutating request with index k (no effect on the store). FailSeq likewise by global sequence.
	FailMut map[int]bool
	// Manifests: the harness's store of built manifests for one history (not part of the cluster; kept here because the cluster is what
	// the runs of a history share)
	Manifests map[string]*unstructured.Unstructured
	FailCode  int               // HTTP status of injected faults: 0/500 InternalError, 403 Forbidden, 422 Invalid, 409 AlreadyExists (creates of non-Namespace kinds only, else 500)
	// FailReq: a read request for which it returns true is rejected (evaluated in begin, store lock held)
	FailReq func(r *Req) bool
	InvLists int // number of LISTs so far (the harness only lists the inventory resource)
	// Before is called (without the store lock) before a request is executed; it may block to impose a schedule.
	Before func(r *Req)
	// After is called after a request was executed (store lock NOT held).
	After func(r *Req)
	// Finalizer[key]: a delete only marks the object (deletionTimestamp) instead of removing it.
	Finalizer map[Key]bool
	// Closed: set when the run's event channel closed; requests after that are flagged.
	Closed   bool
	LateReqs []*Req
	// kind <-> resource
	Kinds map[schema.GroupKind]schema.GroupVersionResource
	// open WATCH streams (dynamic front end): every change of the store is sent to the streams of its resource
	watches []*cwatch
	rv      int         // resource version: one per change of the store
	evlog   []loggedEv  // every change, for WATCH requests that start at an earlier resource version
}

type loggedEv struct {
	rv  int
	t   watch.EventType
	k   Key
	obj *unstructured.Unstructured
}

// cwatch is one WATCH stream.  It starts with the changes made after the resource version it was asked for (the one the preceding
// LIST returned: no gap between a LIST and the WATCH that follows it, and nothing the LIST already showed is repeated), then carries
// the changes as they happen.
type cwatch struct {
	group, resource, ns string
	ch                  chan watch.Event
	mu                  sync.Mutex
	stopped             bool
}

func (w *cwatch) Stop() {
	w.mu.Lock()
	defer w.mu.Unlock()
	if !w.stopped {
		w.stopped = true
		close(w.ch)
	}
}
func (w *cwatch) ResultChan() <-chan watch.Event { return w.ch }
func (w *cwatch) push(t watch.EventType, o *unstructured.Unstructured) {
	w.mu.Lock()
	defer w.mu.Unlock()
	if w.stopped {
		return
	}
	select {
	case w.ch <- watch.Event{Type: t, Object: o.DeepCopy()}:
	default: // (the histories are far smaller than the buffer)
	}
}

// notify: store lock held
func (c *Cluster) notify(t watch.EventType, k Key, o *unstructured.Unstructured) {
	c.rv++
	cp := o.DeepCopy()
	cp.SetResourceVersion(strconv.Itoa(c.rv))
	c.evlog = append(c.evlog, loggedEv{rv: c.rv, t: t, k: k, obj: cp})
	for _, w := range c.watches {
		if w.group == k.Group && w.resource == k.Resource && (w.ns == "" || w.ns == k.Namespace) {
			w.push(t, cp)
		}
	}
}

func (c *Cluster) addWatch(ctx context.Context, group, resource, ns, fromRV string) watch.Interface {
	c.mu.Lock()
	defer c.mu.Unlock()
	w := &cwatch{group: group, resource: resource, ns: ns, ch: make(chan watch.Event, 4096)}
	if from, err := strconv.Atoi(fromRV); err == nil {
		for _, e := range c.evlog {
			if e.rv > from && e.k.Group == group && e.k.Resource == resource && (ns == "" || e.k.Namespace == ns) {
				w.push(e.t, e.obj)
			}
		}
	}
	c.watches = append(c.watches, w)
	go func() {
		<-ctx.Done()
		w.Stop()
	}()
	return w
}

// doListRV: the matching objects and the resource version of the store at that moment (what a WATCH continues from)
func (c *Cluster) doListRV(group, resource, ns string, match func(*unstructured.Unstructured) bool) ([]*unstructured.Unstructured, string) {
	c.mu.Lock()
	rv := strconv.Itoa(c.rv)
	c.mu.Unlock()
	// (the version is read BEFORE the objects: a change in between is shown by the list and repeated by the watch, never lost)
	return c.doList(group, resource, ns, match), rv
}

// ActiveWatches: WATCH streams nobody has stopped yet.
func (c *Cluster) ActiveWatches() int {
	c.mu.Lock()
	defer c.mu.Unlock()
	n := 0
	for _, w := range c.watches {
		w.mu.Lock()
		if !w.stopped {
			n++
		}
		w.mu.Unlock()
	}
	return n
}

func New() *Cluster {
	return &Cluster{objs: map[Key]*unstructured.Unstructured{}, FailMut: map[int]bool{}, Finalizer: map[Key]bool{},
		Kinds: map[schema.GroupKind]schema.GroupVersionResource{}}
}

// begin logs a request and decides rejection; returns the entry.
func (c *Cluster) begin(r *Req) *Req {
	c.mu.Lock()
	r.Seq = c.seq
	c.seq++
	if r.Mutating {
		r.MutIdx = c.mutIdx
		c.mutIdx++
		if c.FailMut[r.MutIdx] {
			r.Rejected = true
		}
	} else {
		r.MutIdx = -1
		if r.Verb == "list" {
			r.ListIdx = c.InvLists
			c.InvLists++
		}
		if c.FailReq != nil && c.FailReq(r) {
			r.Rejected = true
		}
	}
	c.Log = append(c.Log, r)
	if c.Closed {
		c.LateReqs = append(c.LateReqs, r)
	}
	before := c.Before
	c.mu.Unlock()
	if before != nil {
		before(r)
	}
	return r
}

func (c *Cluster) end(r *Req) {
	c.mu.Lock()
	after := c.After
	c.mu.Unlock()
	if after != nil {
		after(r)
	}
}

// MarkClosed flags the end of the run.
func (c *Cluster) MarkClosed() {
	c.mu.Lock()
	c.Closed = true
	c.mu.Unlock()
}

// NewRun resets the per-run counters and hooks (the store is kept).
func (c *Cluster) NewRun() {
	c.mu.Lock()
	defer c.mu.Unlock()
	c.Log = nil
	c.watches = nil
	c.LateReqs = nil
	c.mutIdx, c.InvLists = 0, 0
	c.FailMut, c.FailReq = map[int]bool{}, nil
	c.Finalizer = map[Key]bool{}
	c.Before, c.After = nil, nil
	c.Closed = false
}

func (c *Cluster) uid() string {
	c.nextUID++
	return fmt.Sprintf("uid-%d", c.nextUID)
}

// Get returns a deep copy.
func (c *Cluster) Get(k Key) *unstructured.Unstructured {
	c.mu.Lock()
	defer c.mu.Unlock()
	if o, ok := c.objs[k]; ok {
		return o.DeepCopy()
	}
	return nil
}

// Put stores an object directly (environment action, not a request): assigns uid/generation if missing.
func (c *Cluster) Put(k Key, o *unstructured.Unstructured) *unstructured.Unstructured {
	c.mu.Lock()
	defer c.mu.Unlock()
	o = o.DeepCopy()
	if o.GetUID() == "" {
		o.SetUID(typesUID(c.uid()))
	}
	if o.GetGeneration() == 0 {
		o.SetGeneration(1)
	}
	_, had := c.objs[k]
	c.objs[k] = o
	if had {
		c.notify(watch.Modified, k, o)
	} else {
		c.notify(watch.Added, k, o)
	}
	return o.DeepCopy()
}

// Remove deletes directly (environment action: finalizer completes, other actor deletes).
func (c *Cluster) Remove(k Key) {
	c.mu.Lock()
	defer c.mu.Unlock()
	if o, ok := c.objs[k]; ok {
		c.notify(watch.Deleted, k, o)
	}
	delete(c.objs, k)
}

// Keys returns all keys sorted.
func (c *Cluster) Keys() []Key {
	c.mu.Lock()
	defer c.mu.Unlock()
	ks := make([]Key, 0, len(c.objs))
	for k := range c.objs {
		ks = append(ks, k)
	}
	sort.Slice(ks, func(i, j int) bool { return ks[i].String() < ks[j].String() })
	return ks
}

// Snapshot returns deep copies of all objects.
func (c *Cluster) Snapshot() map[Key]*unstructured.Unstructured {
	c.mu.Lock()
	defer c.mu.Unlock()
	m := make(map[Key]*unstructured.Unstructured, len(c.objs))
	for k, o := range c.objs {
		m[k] = o.DeepCopy()
	}
	return m
}

// ---- store operations shared by both front ends (called with r already begun) ----

func (c *Cluster) doGet(k Key) (*unstructured.Unstructured, bool) {
	c.mu.Lock()
	defer c.mu.Unlock()
	o, ok := c.objs[k]
	if !ok {
		return nil, false
	}
	return o.DeepCopy(), true
}

func (c *Cluster) doList(group, resource, ns string, match func(*unstructured.Unstructured) bool) []*unstructured.Unstructured {
	c.mu.Lock()
	defer c.mu.Unlock()
	var out []*unstructured.Unstructured
	var ks []Key
	for k := range c.objs {
		ks = append(ks, k)
	}
	sort.Slice(ks, func(i, j int) bool { return ks[i].String() < ks[j].String() })
	for _, k := range ks {
		if k.Group == group && k.Resource == resource && (ns == "" || k.Namespace == ns) {
			o := c.objs[k]
			if match == nil || match(o) {
				out = append(out, o.DeepCopy())
			}
		}
	}
	return out
}

// doCreate: returns (obj, "ok"|"exists").
func (c *Cluster) doCreate(k Key, o *unstructured.Unstructured, dry bool) (*unstructured.Unstructured, string) {
	c.mu.Lock()
	defer c.mu.Unlock()
	if _, ok := c.objs[k]; ok {
		return nil, "exists"
	}
	o = o.DeepCopy()
	o.SetUID(typesUID(c.uidPeek(dry)))
	o.SetGeneration(1)
	o.SetResourceVersion("1")
	if !dry {
		c.objs[k] = o
		c.notify(watch.Added, k, o)
	}
	return o.DeepCopy(), "ok"
}

func (c *Cluster) uidPeek(dry bool) string {
	if dry {
		return fmt.Sprintf("uid-dry-%d", c.nextUID+1)
	}
	return c.uid()
}

// doReplace: full replacement (Update / server-side apply of an existing object); generation bumps if spec-ish content changed.
func (c *Cluster) doReplace(k Key, o *unstructured.Unstructured, dry bool) (*unstructured.Unstructured, string) {
	c.mu.Lock()
	defer c.mu.Unlock()
	old, ok := c.objs[k]
	if !ok {
		return nil, "notfound"
	}
	n := o.DeepCopy()
	n.SetUID(old.GetUID())
	n.SetGeneration(old.GetGeneration())
	if ts := old.GetDeletionTimestamp(); ts != nil {
		n.SetDeletionTimestamp(ts)
	}
	if specChanged(old, n) {
		n.SetGeneration(old.GetGeneration() + 1)
	}
	if !dry {
		c.objs[k] = n
		c.notify(watch.Modified, k, n)
	}
	return n.DeepCopy(), "ok"
}

// doDelete: returns "ok"|"notfound"|"conflict".
func (c *Cluster) doDelete(k Key, precondUID string) string {
	c.mu.Lock()
	defer c.mu.Unlock()
	o, ok := c.objs[k]
	if !ok {
		return "notfound"
	}
	if precondUID != "" && string(o.GetUID()) != precondUID {
		return "conflict"
	}
	if c.Finalizer[k] {
		if o.GetDeletionTimestamp() != nil {
			// already being deleted: an API server leaves the object as it is (no new timestamp, no watch event)
			return "ok"
		}
		now := metav1Now()
		o.SetDeletionTimestamp(&now)
		c.notify(watch.Modified, k, o)
		return "ok"
	}
	c.notify(watch.Deleted, k, o)
	delete(c.objs, k)
	return "ok"
}

func specChanged(a, b *unstructured.Unstructured) bool {
	strip := func(u *unstructured.Unstructured) map[string]interface{} {
		m := u.DeepCopy().Object
		delete(m, "metadata")
		delete(m, "status")
		return m
	}
	return fmt.Sprint(strip(a)) != fmt.Sprint(strip(b))
}
