// Package proto: line protocol, PRNG and small helpers shared by all correspondence domains.
package proto

import (
	"bufio"
	"encoding/json"
	"fmt"
	"os"
	"strconv"
)

// Rng is splitmix64; every random choice of a run derives from one state.
type Rng struct{ s uint64 }

func NewRng(seed uint64) *Rng { return &Rng{s: seed} }

func (r *Rng) Next() uint64 {
	r.s += 0x9e3779b97f4a7c15
	z := r.s
	z = (z ^ (z >> 30)) * 0xbf58476d1ce4e5b9
	z = (z ^ (z >> 27)) * 0x94d049bb133111eb
	return z ^ (z >> 31)
}

// Intn returns a value in [0,n).
func (r *Rng) Intn(n int) int {
	if n <= 0 {
		return 0
	}
	return int(r.Next() % uint64(n))
}

func (r *Rng) Bool() bool { return r.Next()&1 == 1 }

// Chance returns true with probability num/den.
func (r *Rng) Chance(num, den int) bool { return r.Intn(den) < num }

func Pick[T any](r *Rng, xs []T) T { return xs[r.Intn(len(xs))] }

// Fork derives an independent generator (for sharding).
func (r *Rng) Fork(k uint64) *Rng { return NewRng(r.Next() ^ (k * 0x2545F4914F6CDD1D)) }

// Seed reads VERIF_SEED (default 1).
func Seed() uint64 {
	if s := os.Getenv("VERIF_SEED"); s != "" {
		if v, err := strconv.ParseUint(s, 10, 64); err == nil {
			return v
		}
		if v, err := strconv.ParseInt(s, 10, 64); err == nil {
			return uint64(v)
		}
	}
	return 1
}

// Tier reads VERIF_TIER (quick|thorough).
func Tier() string {
	if t := os.Getenv("VERIF_TIER"); t == "thorough" {
		return t
	}
	return "quick"
}

// Out writes case lines.
type Out struct {
	w *bufio.Writer
	N int
}

func NewOut() *Out { return &Out{w: bufio.NewWriterSize(os.Stdout, 1<<20)} }

// Emit writes {"d":domain,"i":input,"o":output}.
func (o *Out) Emit(domain string, in, out any) {
	b, err := json.Marshal(map[string]any{"d": domain, "i": in, "o": out})
	if err != nil {
		fmt.Fprintf(os.Stderr, "marshal: %v\n", err)
		os.Exit(2)
	}
	o.w.Write(b)
	o.w.WriteByte('\n')
	o.N++
}

func (o *Out) Flush() { o.w.Flush() }
