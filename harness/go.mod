module verif/harness

go 1.22.0

require (
	k8s.io/apimachinery v0.31.1
	k8s.io/cli-runtime v0.31.1
	k8s.io/client-go v0.31.1
	k8s.io/klog/v2 v2.130.1
	k8s.io/kubectl v0.31.1
	sigs.k8s.io/cli-utils v0.0.0
	sigs.k8s.io/controller-runtime v0.19.0
	sigs.k8s.io/yaml v1.4.0
)

require (
	github.com/MakeNowJust/heredoc v1.0.0 // indirect
	github.com/blang/semver/v4 v4.0.0 // indirect
	github.com/chai2010/gettext-go v1.0.2 // indirect
	github.com/davecgh/go-spew v1.1.2-0.20180830191138-d8f796af33cc // indirect
	github.com/emicklei/go-restful/v3 v3.11.0 // indirect
	github.com/evanphx/json-patch/v5 v5.9.0 // indirect
	github.com/exponent-io/jsonpath v0.0.0-20151013193312-d6023ce2651d // indirect
	github.com/fatih/camelcase v1.0.0 // indirect
	github.com/fxamacker/cbor/v2 v2.7.0 // indirect
	github.com/go-errors/errors v1.4.2 // indirect
	github.com/go-logr/logr v1.4.2 // indirect
	github.com/go-openapi/jsonpointer v0.19.6 // indirect
	github.com/go-openapi/jsonreference v0.20.2 // indirect
	github.com/go-openapi/swag v0.22.4 // indirect
	github.com/gogo/protobuf v1.3.2 // indirect
	github.com/golang/protobuf v1.5.4 // indirect
	github.com/google/btree v1.0.1 // indirect
	github.com/google/gnostic-models v0.6.8 // indirect
	github.com/google/go-cmp v0.6.0 // indirect
	github.com/google/gofuzz v1.2.0 // indirect
	github.com/google/shlex v0.0.0-20191202100458-e7afc7fbc510 // indirect
	github.com/google/uuid v1.6.0 // indirect
	github.com/gorilla/websocket v1.5.0 // indirect
	github.com/gregjones/httpcache v0.0.0-20180305231024-9cad4c3443a7 // indirect
	github.com/imdario/mergo v0.3.13 // indirect
	github.com/jonboulle/clockwork v0.2.2 // indirect
	github.com/josharian/intern v1.0.0 // indirect
	github.com/json-iterator/go v1.1.12 // indirect
	github.com/liggitt/tabwriter v0.0.0-20181228230101-89fcab3d43de // indirect
	github.com/mailru/easyjson v0.7.7 // indirect
	github.com/mitchellh/go-wordwrap v1.0.1 // indirect
	github.com/moby/spdystream v0.4.0 // indirect
	github.com/moby/term v0.5.0 // indirect
	github.com/modern-go/concurrent v0.0.0-20180306012644-bacd9c7ef1dd // indirect
	github.com/modern-go/reflect2 v1.0.2 // indirect
	github.com/monochromegane/go-gitignore v0.0.0-20200626010858-205db1a8cc00 // indirect
	github.com/munnerz/goautoneg v0.0.0-20191010083416-a7dc8b61c822 // indirect
	github.com/mxk/go-flowrate v0.0.0-20140419014527-cca7078d478f // indirect
	github.com/onsi/gomega v1.34.2 // indirect
	github.com/peterbourgon/diskv v2.0.1+incompatible // indirect
	github.com/pkg/errors v0.9.1 // indirect
	github.com/pmezard/go-difflib v1.0.1-0.20181226105442-5d4384ee4fb2 // indirect
	github.com/russross/blackfriday/v2 v2.1.0 // indirect
	github.com/spf13/cobra v1.8.1 // indirect
	github.com/spf13/pflag v1.0.5 // indirect
	github.com/spyzhov/ajson v0.9.4 // indirect
	github.com/stretchr/testify v1.9.0 // indirect
	github.com/x448/float16 v0.8.4 // indirect
	github.com/xlab/treeprint v1.2.0 // indirect
	go.starlark.net v0.0.0-20230525235612-a134d8f9ddca // indirect
	golang.org/x/net v0.28.0 // indirect
	golang.org/x/oauth2 v0.21.0 // indirect
	golang.org/x/sync v0.8.0 // indirect
	golang.org/x/sys v0.24.0 // indirect
	golang.org/x/term v0.23.0 // indirect
	golang.org/x/text v0.17.0 // indirect
	golang.org/x/time v0.3.0 // indirect
	google.golang.org/protobuf v1.34.2 // indirect
	gopkg.in/evanphx/json-patch.v4 v4.12.0 // indirect
	gopkg.in/inf.v0 v0.9.1 // indirect
	gopkg.in/yaml.v2 v2.4.0 // indirect
	gopkg.in/yaml.v3 v3.0.1 // indirect
	k8s.io/api v0.31.1 // indirect
	k8s.io/component-base v0.31.1 // indirect
	k8s.io/kube-openapi v0.0.0-20240228011516-70dd3763d340 // indirect
	k8s.io/utils v0.0.0-20240711033017-18e509b52bc8 // indirect
	sigs.k8s.io/json v0.0.0-20221116044647-bc3834ca7abd // indirect
	sigs.k8s.io/kustomize/api v0.17.2 // indirect
	sigs.k8s.io/kustomize/kyaml v0.17.2 // indirect
	sigs.k8s.io/structured-merge-diff/v4 v4.4.1 // indirect
)

replace sigs.k8s.io/cli-utils => /repo
